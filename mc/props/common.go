// Package props holds one file per property: alphabet, bound, oracle.
package props

import (
	"fmt"
	"go/ast"
	"go/parser"
	"go/token"
	"os"
	"path/filepath"
	"regexp"
	"sort"
	"strconv"
	"strings"

	"github.com/osteele/liquid"
	"verifmc/explore"
)

var RepoDir = func() string {
	if d := os.Getenv("VERIF_REPO"); d != "" {
		return d
	}
	return "/repo"
}()

// Outcome of running the implementation once.
type Outcome struct {
	Out   string
	Err   liquid.SourceError
	Panic *explore.Panic
}

func (o Outcome) String() string {
	switch {
	case o.Panic != nil:
		return "PANIC(" + o.Panic.Value + " @" + o.Panic.Frame + ")"
	case o.Err != nil:
		return "ERR(" + safeErr(o.Err) + ")"
	}
	return "OUT(" + strconv.Quote(o.Out) + ")"
}

// Sig is the comparable signature of an outcome: bytes, or error text+line+path.
func (o Outcome) Sig() string {
	switch {
	case o.Panic != nil:
		return "PANIC(" + o.Panic.Value + ")"
	case o.Err != nil:
		return fmt.Sprintf("ERR(%s|line=%d|path=%s)", safeErr(o.Err), o.Err.LineNumber(), o.Err.Path())
	}
	return "OUT(" + o.Out + ")"
}

func safeErr(e error) (s string) {
	defer func() {
		if r := recover(); r != nil {
			s = fmt.Sprint("<Error() panicked: ", r, ">")
		}
	}()
	return e.Error()
}

// Render parses and renders src on engine e (parse + Render on the template).
func Render(e *liquid.Engine, src string, b map[string]any) (o Outcome) {
	o.Panic = explore.Safe(func() {
		tpl, err := e.ParseTemplate([]byte(src))
		if err != nil {
			o.Err = err
			return
		}
		out, err := tpl.Render(b)
		if err != nil {
			o.Err = err
			if out != nil {
				o.Out = string(out)
			}
			return
		}
		o.Out = string(out)
	})
	return
}

// Class is a coarse outcome class for vacuity reporting.
func (o Outcome) Class() string {
	switch {
	case o.Panic != nil:
		return "panic"
	case o.Err != nil:
		return "error"
	case o.Out == "":
		return "empty"
	}
	return "output"
}

// StdFilters reads the names of the standard filters from the working tree, so
// that a filter added to the repository is explored without touching /verif.
func StdFilters() []string {
	re := regexp.MustCompile(`AddFilter\("([a-z_0-9]+)"`)
	seen := map[string]bool{}
	files, _ := filepath.Glob(filepath.Join(RepoDir, "filters", "*.go"))
	for _, f := range files {
		if strings.HasSuffix(f, "_test.go") {
			continue
		}
		b, err := os.ReadFile(f)
		if err != nil {
			continue
		}
		for _, m := range re.FindAllStringSubmatch(string(b), -1) {
			seen[m[1]] = true
		}
	}
	var out []string
	for k := range seen {
		out = append(out, k)
	}
	sort.Strings(out)
	if len(out) < 40 {
		panic(fmt.Sprintf("harness: only %d standard filters found under %s/filters", len(out), RepoDir))
	}
	return out
}

// TestCorpus extracts template-looking string literals from the repository's tests.
func TestCorpus() []string {
	seen := map[string]bool{}
	var out []string
	filepath.Walk(RepoDir, func(path string, info os.FileInfo, err error) error {
		if err != nil || info.IsDir() || !strings.HasSuffix(path, "_test.go") {
			return nil
		}
		fset := token.NewFileSet()
		f, err := parser.ParseFile(fset, path, nil, 0)
		if err != nil {
			return nil
		}
		ast.Inspect(f, func(n ast.Node) bool {
			if bl, ok := n.(*ast.BasicLit); ok && bl.Kind == token.STRING {
				s, err := strconv.Unquote(bl.Value)
				if err == nil && (strings.Contains(s, "{{") || strings.Contains(s, "{%")) && len(s) <= 200 && !seen[s] {
					seen[s] = true
					out = append(out, s)
				}
			}
			return true
		})
		return nil
	})
	sort.Strings(out)
	return out
}

// mixed-radix decoding of a case index.
type radix struct {
	i int64
}

func (r *radix) next(n int) int {
	if n <= 0 {
		panic("harness: radix 0")
	}
	d := int(r.i % int64(n))
	r.i /= int64(n)
	return d
}

// seqCount = sum_{l=0..n} k^l
func seqCount(k, n int) int64 {
	var total, p int64 = 0, 1
	for l := 0; l <= n; l++ {
		total += p
		p *= int64(k)
	}
	return total
}

// seqAt returns the i-th sequence (shortest first, then lexicographic) over k symbols.
func seqAt(k int, i int64) []int {
	l := 0
	p := int64(1)
	for i >= p {
		i -= p
		p *= int64(k)
		l++
	}
	out := make([]int, l)
	for j := l - 1; j >= 0; j-- {
		out[j] = int(i % int64(k))
		i /= int64(k)
	}
	return out
}

func joinSyms(alpha []string, seq []int, sep string) string {
	var sb strings.Builder
	for j, s := range seq {
		if j > 0 {
			sb.WriteString(sep)
		}
		sb.WriteString(alpha[s])
	}
	return sb.String()
}

// nestedArgLaw: a filter argument may itself be a filtered expression in parentheses - `x | e | f: (y | g)`. It means
// what the same steps mean through assign: `{% assign t = y | g %}{{ x | e | f: t }}`. Each case is [pipeline, argument
// expression]; the pipeline mentions the argument as ARG. Checked as an object, as the right-hand side of an assign
// and inside a condition.
func nestedArgLaw(r *explore.Rec, eng *liquid.Engine, key string, pipeline, arg string, bind map[string]any) {
	nested := strings.ReplaceAll(pipeline, "ARG", "("+arg+")")
	flat := strings.ReplaceAll(pipeline, "ARG", "argt")
	forms := [][2]string{
		{"{{ " + nested + " }}", "{% assign argt = " + arg + " %}{{ " + flat + " }}"},
		{"{% assign res = " + nested + " %}[{{ res }}]", "{% assign argt = " + arg + " %}{% assign res = " + flat + " %}[{{ res }}]"},
		{"{% for q in (1..2) %}{{ " + nested + " }};{% endfor %}", "{% assign argt = " + arg + " %}{% for q in (1..2) %}{{ " + flat + " }};{% endfor %}"},
	}
	for _, f := range forms {
		r.Eval()
		r.Transition()
		a, b := Render(eng, f[0], bind), Render(eng, f[1], bind)
		if b.Panic != nil || b.Err != nil {
			panic(explore.BaselineFailure{Msg: "harness: decomposed pipeline fails: " + f[1] + ": " + b.String()})
		}
		if a.String() != b.String() {
			r.Violation(key, map[string]any{"pipeline": f[0], "through_assign": f[1]}, b.String(), a.String())
		}
	}
}
