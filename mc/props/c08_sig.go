//go:build verifx

package props

import (
	"reflect"

	"github.com/osteele/liquid"
)

// With the overlay of tools/overlay.sh the real Go signature of every registered filter is the arity oracle.
func init() {
	c08FilterArity = func(e *liquid.Engine, name string) (maxArgs int, variadic bool, ok bool) {
		fn := liquid.VerifFilterFunc(e, name)
		if fn == nil {
			return 0, false, false
		}
		t := reflect.TypeOf(fn)
		return t.NumIn() - 1, t.IsVariadic(), true
	}
}
