//go:build verifx

package props

import (
	"reflect"
	"unsafe"

	"github.com/osteele/liquid"
)

// readReflectValue reads a (possibly unexported) struct field of type reflect.Value.
func readReflectValue(f reflect.Value) (reflect.Value, bool) {
	if !f.CanAddr() {
		c := reflect.New(f.Type()).Elem()
		c.Set(f)
		f = c
	}
	p := (*reflect.Value)(unsafe.Pointer(f.UnsafeAddr()))
	if !p.IsValid() {
		return reflect.Value{}, false
	}
	return *p, true
}

// With the overlay of tools/overlay.sh the real Go signature of every registered filter is the arity oracle.
func init() {
	c08FilterArity = func(e *liquid.Engine, name string) (maxArgs int, variadic bool, ok bool) {
		fn := liquid.VerifFilterFunc(e, name)
		if fn == nil {
			return 0, false, false
		}
		t := reflect.TypeOf(fn)
		if t.Kind() != reflect.Func {
			// the registry no longer stores bare functions (e.g. a wrapper struct): look one level
			// down for the function; otherwise fall back to the table
			v := reflect.ValueOf(fn)
			for v.Kind() == reflect.Ptr || v.Kind() == reflect.Interface {
				if v.IsNil() {
					return 0, false, false
				}
				v = v.Elem()
			}
			found := false
			if v.Kind() == reflect.Struct {
				for i := 0; i < v.NumField() && !found; i++ {
					f := v.Field(i)
					for f.Kind() == reflect.Interface && !f.IsNil() {
						f = f.Elem()
					}
					if f.Kind() == reflect.Func {
						t, found = f.Type(), true
					} else if f.Type() == reflect.TypeOf(reflect.Value{}) {
						// a stored reflect.Value of the function
						if rv, ok := readReflectValue(f); ok && rv.Kind() == reflect.Func {
							t, found = rv.Type(), true
						}
					}
				}
			}
			if !found {
				return 0, false, false
			}
		}
		return t.NumIn() - 1, t.IsVariadic(), true
	}
}
