package props

import (
	"bytes"
	"fmt"
	"hash/fnv"
	"os"
	"os/exec"
	"regexp"
	"runtime"
	"sort"
	"strconv"
	"strings"
	"sync"
	"time"

	"github.com/osteele/liquid"
	"github.com/osteele/liquid/render"
	"verifmc/explore"
	"verifmc/sched"
	"verifmc/univ"
)

// C04 — concurrent parse/render on a shared engine is race-free and equals sequential.

const (
	c04IncName  = "c04_included.liquid"
	c04FailName = "c04_failing.liquid"
	c04SelfName = "c04_self.liquid"
	c04AltPath  = "c04_other_page.liquid"
)

var c04Cur *sched.S // the scheduler of the execution in progress (one at a time per worker)

// c04ShimOn: this binary was built with the repository's "sync" imports rewritten to verifmc/syncshim
// (build tag schedshim + tools/overlay.sh sched), so the code's own locks/onces/pools are scheduling points.
var c04ShimOn bool

type pointDrop struct{ v any }

func (d pointDrop) ToLiquid() any { c04Cur.Point("ToLiquid"); return d.v }

// ptrPointDrop is a Drop of pointer kind (shared by identity between renders), with the same scheduling point.
type ptrPointDrop struct{ v any }

func (d *ptrPointDrop) ToLiquid() any { c04Cur.Point("ToLiquid"); return d.v }

func c04Engine() *liquid.Engine {
	e := liquid.NewEngine()
	e.RegisterFilter("y", func(v any) any { c04Cur.Point("filter"); return v })
	e.RegisterTag("y", func(c render.Context) (string, error) { c04Cur.Point("tag"); return "", nil })
	e.RegisterBlock("yb", func(c render.Context) (string, error) {
		c04Cur.Point("block-in")
		s, err := c.InnerString()
		c04Cur.Point("block-out")
		return s, err
	})
	if _, err := e.ParseTemplateAndCache([]byte("inc[{% y %}{% assign x = 'i' %}{{ x | y }}{% for i in l %}{% cycle '1', '2' %}{% y %}{% endfor %}]"), c04IncName, 1); err != nil {
		panic("harness: " + err.Error())
	}
	// a partial that includes itself until depth 60 (one scheduling point per level): two or three such renders
	// in flight together hold 120-180 nested includes, each of them far below any per-render nesting limit
	if _, err := e.ParseTemplateAndCache([]byte(`{% assign n = n | plus: 1 %}{% y %}{% if n < 60 %}{% include "`+c04SelfName+`" %}{% else %}bottom{{ n }}{% endif %}`), c04SelfName, 1); err != nil {
		panic("harness: " + err.Error())
	}
	if _, err := e.ParseTemplateAndCache([]byte("F[{% y %}{{ l | first | divided_by: 0 }}]"), c04FailName, 1); err != nil {
		panic("harness: " + err.Error())
	}
	return e
}

var c04TokRe = regexp.MustCompile(`(?s)\{\{.*?\}\}|\{%.*?%\}`)

// c04Instrument plants scheduling points: `| y` on every object, `{% y %}` after every tag and object
// (not inside raw/comment bodies, where it would be literal text).
func c04Instrument(src string) string {
	var sb strings.Builder
	pos := 0
	inert := ""
	for _, m := range c04TokRe.FindAllStringIndex(src, -1) {
		sb.WriteString(src[pos:m[0]])
		tok := src[m[0]:m[1]]
		pos = m[1]
		name := ""
		if strings.HasPrefix(tok, "{%") {
			f := strings.Fields(strings.Trim(tok, "{}%- "))
			if len(f) > 0 {
				name = f[0]
			}
		}
		switch {
		case inert != "":
			sb.WriteString(tok)
			if name == "end"+inert {
				inert = ""
				sb.WriteString("{% y %}")
			}
		case name == "raw" || name == "comment":
			inert = name
			sb.WriteString(tok)
		case strings.HasPrefix(tok, "{{"):
			inner := strings.TrimSuffix(strings.TrimPrefix(tok, "{{"), "}}")
			lh, rh := "", ""
			if strings.HasPrefix(inner, "-") {
				lh, inner = "-", inner[1:]
			}
			if strings.HasSuffix(inner, "-") {
				rh, inner = "-", inner[:len(inner)-1]
			}
			sb.WriteString("{{" + lh + inner + "| y " + rh + "}}{% y %}")
		case name == "case":
			sb.WriteString(tok) // content between case and its first when is not rendered
		default:
			sb.WriteString(tok + "{% y %}")
		}
	}
	sb.WriteString(src[pos:])
	return sb.String()
}

// c04QuickTemplates: the first this-many templates of c04Base are scheduled in the quick tier.
const c04QuickTemplates = 18

var c04Base = []string{
	"{% for i in l %}{% cycle 'a', 'b' %}{{ i }}{% endfor %}",
	"{% assign x = 'A' %}{{ x }}{% assign x = x | append: '!' %}{{ x }}",
	"{% capture c %}[{{ x }}{% for i in l %}{{ i }}{% endfor %}]{% endcapture %}{{ c }}{{ c | size }}",
	"{% for i in l %}{% for j in l %}{% if j == 2 %}{% break %}{% endif %}{{ i }}{{ j }}{{ forloop.index }}{% endfor %}{{ forloop.index }}{% endfor %}",
	" a {{- x -}} b {%- if x -%} c {%- endif -%} d {{ d }} ",
	"{{ l | sort | join }}{{ l | reverse | first }}{{ lm | sort: 'w' | map: 'w' | join }}{{ l | uniq | size }}",
	"{% tablerow i in l cols: 2 %}{{ i }}{% endtablerow %}",
	`<{% include "` + c04IncName + `" %}>{{ x }}`,
	"{% case x %}{% when 'X' %}W{{ x }}{% else %}E{% endcase %}{% unless x %}U{% else %}V{% endunless %}",
	"p{% raw %}{{ raw }}{% endraw %}{% comment %}zz{% endcomment %}q{{ d.k }}{{ d.l | join }}",
	"{% for kv in m %}{{ kv[0] }}={{ kv[1] }};{% endfor %}{{ m.size }}{{ dl | join }}{{ dl[0] }}{% if dl[1] == 's' %}S{% endif %}",
	"{% yb %}in{{ x }}{% endyb %}{% for i in l limit: 2 %}{% cycle 'g': '1', '2', '3' %}{% endfor %}",
	`a{% include "` + c04FailName + `" %}b`,                             // the error raised inside the included file names the INCLUDING template's path and line
	`R{% include "` + c04SelfName + `" %}`,                              // 60 nested includes per render
	"{{ site }}|{{ site.page.title }}|{{ site.list }}|{{ m }}|{{ dl }}", // whole containers holding (pointer) Drops are printed
	`{{ x }}<{% include "` + c04FailName + `" %}>`,                      // something is evaluated BEFORE the include: a render can be parked between its start and its include
	// block headers whose arguments depend on where an ENCLOSING loop is: two renders of the same node are in flight with different arguments
	"{% for n in (1..2) %}{% tablerow i in l cols: n %}{{ i }}{% endtablerow %}{% endfor %}",
	"{% for n in (1..2) %}{% for i in l limit: n offset: n %}{{ i }}{% cycle 'a', 'b', 'c' %}{% endfor %}{% case n %}{% when 2 %}two{% else %}{{ n }}{% endcase %}{% endfor %}",
	// thorough
	"{% assign l = l | reverse %}{% for i in l %}{{ i }}{% endfor %}{% assign x = nil %}{{ x }}",
	"{% for x in l %}{{ x }}{% endfor %}{{ x }}{{ forloop }}",
	"{{ x | append: x | upcase | size }}{{ l | concat: l | join: '-' }}{{ l | first | plus: 1 }}",
	"{% if l contains 2 and x == 'X' %}T{% endif %}{% if d.k < 5 %}L{% endif %}{{ l[1] }}{{ l.last }}{{ m['a'] }}",
	"{{ nosuch | nosuchfilter }}",
	"{% for i in l %}{{ i | divided_by: 0 }}{% endfor %}",
}

func c04Shared() map[string]any {
	return map[string]any{
		"x": "X", "l": []any{3, 1, 2, 1}, "lm": []any{map[string]any{"w": 2}, map[string]any{"w": 1}},
		"m": map[string]any{"a": 1, "b": 2}, "d": pointDrop{map[string]any{"k": 1, "l": []any{2, 1}}},
		"dl": []any{pointDrop{1}, pointDrop{"s"}}, "n": 0,
		"site": map[string]any{"page": &ptrPointDrop{map[string]any{"title": "home"}}, "list": []any{&ptrPointDrop{7}}},
	}
}

type c04Op struct {
	kind string // render | frender | parse
	t    int
}

func (o c04Op) String() string { return fmt.Sprintf("%s(t%d)", o.kind, o.t) }

type c04Scenario struct {
	name    string
	scripts [][]c04Op
}

func c04Scenarios(tier string) []c04Scenario {
	nT := c04QuickTemplates
	if tier == "thorough" {
		nT = len(c04Base)
	}
	var out []c04Scenario
	r := func(t int) c04Op { return c04Op{"render", t} }
	f := func(t int) c04Op { return c04Op{"frender", t} }
	p := func(t int) c04Op { return c04Op{"parse", t} }
	for t := 0; t < nT; t++ {
		out = append(out, c04Scenario{fmt.Sprintf("same-template-twice:t%d", t), [][]c04Op{{r(t)}, {f(t)}}})
		if strings.Contains(c04Base[t], c04SelfName) {
			continue // the 60-deep include is explored in same-template-twice and three-goroutines only (cost)
		}
		out = append(out, c04Scenario{fmt.Sprintf("parse-vs-render:t%d", t), [][]c04Op{{p(t), r(t)}, {r(t)}}})
	}
	// different templates using the same binding names
	pairs := [][2]int{{1, 0}, {1, 2}, {1, 7}, {3, 0}, {2, 7}, {5, 6}, {0, 11}, {4, 8}}
	if tier == "thorough" {
		pairs = nil
		for a := 0; a < nT; a++ {
			for b := a + 1; b < nT; b++ {
				pairs = append(pairs, [2]int{a, b})
			}
		}
	}
	for _, pr := range pairs {
		out = append(out, c04Scenario{fmt.Sprintf("two-templates:t%d,t%d", pr[0], pr[1]), [][]c04Op{{r(pr[0])}, {r(pr[1])}}})
	}
	// two parses of different sources at once (parsing has scheduling points only where the library itself
	// synchronises - locks, pools, caches - which the sync shim turns into points)
	for _, pr := range pairs {
		out = append(out, c04Scenario{fmt.Sprintf("two-parses:t%d,t%d", pr[0], pr[1]), [][]c04Op{{p(pr[0]), p(pr[1])}, {p(pr[1]), p(pr[0])}}})
	}
	// the same source parsed at two locations (another file of the same directory, another line): both
	// include the same files, and what an include compiles depends on where it was included from
	ra := func(t int) c04Op { return c04Op{"render-alt", t} }
	for t := 0; t < nT; t++ {
		if strings.Contains(c04Base[t], c04SelfName) {
			continue
		}
		if strings.Contains(c04Base[t], "include") || strings.Contains(c04Base[t], "nosuch") || strings.Contains(c04Base[t], "divided_by: 0") {
			out = append(out, c04Scenario{fmt.Sprintf("two-locations:t%d", t), [][]c04Op{{r(t)}, {ra(t)}}})
			out = append(out, c04Scenario{fmt.Sprintf("two-locations-3:t%d", t), [][]c04Op{{r(t)}, {ra(t)}, {ra(t)}}})
		}
	}
	// three goroutines
	for _, t := range []int{0, 1, 3, 13} {
		out = append(out, c04Scenario{fmt.Sprintf("three-goroutines:t%d", t), [][]c04Op{{r(t)}, {f(t)}, {r(t)}}})
	}
	return out
}

type c04World struct {
	eng    *liquid.Engine
	src    []string
	tpls   []*liquid.Template
	alt    map[int]*liquid.Template // the same sources parsed at another location
	shared map[string]any
	snap   string
}

func c04NewWorld(nT int, used ...int) *c04World {
	w := &c04World{eng: c04Engine(), shared: c04Shared(), alt: map[int]*liquid.Template{}}
	need := map[int]bool{}
	for _, t := range used {
		need[t] = true
	}
	for t := 0; t < nT; t++ {
		s := c04Instrument(c04Base[t])
		w.src = append(w.src, s)
		if len(used) > 0 && !need[t] {
			w.tpls = append(w.tpls, nil)
			continue
		}
		tpl, err := w.eng.ParseString(s)
		if err != nil {
			panic(explore.BaselineFailure{Msg: "harness: instrumented template does not parse: " + s + ": " + err.Error()})
		}
		w.tpls = append(w.tpls, tpl)
		alt, err := w.eng.ParseTemplateLocation([]byte(s), c04AltPath, 7)
		if err != nil {
			panic(explore.BaselineFailure{Msg: "harness: " + err.Error()})
		}
		w.alt[t] = alt
	}
	w.snap = explore.Snapshot(w.shared)
	return w
}

type pointWriter struct {
	buf bytes.Buffer
}

func (w *pointWriter) Write(b []byte) (int, error) {
	c04Cur.Point("write")
	return w.buf.Write(b)
}

func (w *c04World) do(op c04Op) string {
	var o Outcome
	o.Panic = explore.Safe(func() {
		switch op.kind {
		case "render":
			out, err := w.tpls[op.t].Render(w.shared)
			o.Out, o.Err = string(out), err
		case "render-alt":
			out, err := w.alt[op.t].Render(w.shared)
			o.Out, o.Err = string(out), err
		case "frender":
			pw := &pointWriter{}
			if err := w.tpls[op.t].FRender(pw, w.shared); err != nil {
				o.Err = err
			} else {
				o.Out = pw.buf.String()
			}
		case "parse":
			tpl, err := w.eng.ParseString(w.src[op.t])
			if err != nil {
				o.Err = err
			} else {
				out, err := tpl.Render(w.shared)
				o.Out, o.Err = "parsed:"+string(out), err
			}
		}
	})
	return o.Sig()
}

var c04 struct {
	solo map[string]string
}

var c04SchedDeadline time.Time

func c04Solo(nT int, op c04Op) string {
	k := op.String()
	if s, ok := c04.solo[k]; ok {
		return s
	}
	c04Cur = nil
	w := c04NewWorld(nT, op.t)
	s := w.do(op)
	if strings.HasPrefix(s, "PANIC") {
		// no template of the list panics when rendered alone: this would make every comparison below vacuous
		panic(explore.BaselineFailure{Msg: "harness: " + k + " run alone: " + s})
	}
	c04.solo[k] = s
	return s
}

func c04Families(tier string) []explore.Family {
	scen := c04Scenarios(tier)
	nT := c04QuickTemplates
	bound2, bound3 := 2, 1
	maxExec := 200000
	if tier == "thorough" {
		nT = len(c04Base)
		bound2, bound3 = 3, 2
		maxExec = 3000000
	}
	var fams []explore.Family
	const nShards = 16
	fams = append(fams, explore.Family{Name: "schedules", Count: int64(len(scen) * nShards), Run: func(i int64, r *explore.Rec) {
		sc := scen[int(i)/nShards]
		shard := int(i) % nShards
		bound := bound2
		if len(sc.scripts) > 2 {
			bound = bound3
		}
		for _, script := range sc.scripts {
			for _, op := range script {
				if strings.Contains(c04Base[op.t], c04SelfName) && bound > 2 {
					bound = 2 // ~130 scheduling points per render: the third preemption level is not explored for the 60-deep include
				}
			}
		}
		// solo results first (no scheduler)
		want := make([][]string, len(sc.scripts))
		for g, script := range sc.scripts {
			for _, op := range script {
				want[g] = append(want[g], c04Solo(nT, op))
			}
		}
		var w *c04World
		var got [][]string
		var usedT []int
		for _, script := range sc.scripts {
			for _, op := range script {
				usedT = append(usedT, op.t)
			}
		}
		mk := func() []func(s *sched.S) {
			c04Cur = nil
			w = c04NewWorld(nT, usedT...)
			got = make([][]string, len(sc.scripts))
			bodies := make([]func(s *sched.S), len(sc.scripts))
			for g, script := range sc.scripts {
				g, script := g, script
				bodies[g] = func(s *sched.S) {
					for _, op := range script {
						s.Point("op-start")
						got[g] = append(got[g], w.do(op))
					}
				}
			}
			return bodies
		}
		first := true
		outcomes := map[string]bool{}
		var syncPoints int64
		if c04SchedDeadline.IsZero() && !explore.WorkerDeadline.IsZero() {
			// the schedule trees may use three quarters of what is left of the budget: the race pass comes after them
			c04SchedDeadline = explore.WorkerDeadline.Add(-time.Until(explore.WorkerDeadline) / 4)
		}
		sched.Deadline = c04SchedDeadline
		execs, truncated := sched.ExploreShard(func() []func(s *sched.S) {
			b := mk()
			// the scheduler object is created inside Execute; route Point calls through it
			wrapped := make([]func(s *sched.S), len(b))
			for g := range b {
				g := g
				wrapped[g] = func(s *sched.S) { c04Cur = s; b[g](s) }
			}
			return wrapped
		}, bound, maxExec, shard, nShards, func(run *sched.Run) {
			explore.Heartbeat()
			r.Eval()
			r.Trace()
			r.Transition()
			var sb strings.Builder
			for _, c := range run.Choices {
				fmt.Fprintf(&sb, "%d", c)
			}
			h := fnv.New64a() // (a state = one schedule; millions of them: keep 8 bytes each, not the choice string)
			h.Write([]byte(sc.name + ":" + sb.String()))
			r.State(strconv.FormatUint(h.Sum64(), 36))
			desc := func() any {
				var labels []string
				for k, p := range run.Points {
					labels = append(labels, fmt.Sprintf("%s->g%d", p.Label, p.Enabled[run.Choices[k]]))
				}
				var scripts []string
				for _, s := range sc.scripts {
					scripts = append(scripts, fmt.Sprint(s))
				}
				return map[string]any{"scenario": sc.name, "scripts": scripts, "schedule": run.Choices, "steps": labels, "templates": w.src}
			}
			for _, p := range run.Points {
				if k := strings.Index(p.Label, "@"); k >= 0 {
					switch l := p.Label[k+1:]; {
					case strings.HasPrefix(l, "Once."), strings.HasPrefix(l, "Mutex."), strings.HasPrefix(l, "RWMutex."), strings.HasPrefix(l, "Pool."), strings.HasPrefix(l, "Map."), strings.HasPrefix(l, "WaitGroup."):
						syncPoints++
					}
				}
			}
			if len(run.Panics) > 0 {
				r.Violation("goroutine-panicked:"+sc.name, desc(), "no panic", strings.Join(run.Panics, "; "))
				return
			}
			if run.Deadlock {
				r.Violation("deadlock:"+sc.name, desc(), "every goroutine finishes", "no goroutine enabled while some are unfinished (blocked on a lock/once/waitgroup of the library)")
				return
			}
			for g := range want {
				if fmt.Sprint(got[g]) != fmt.Sprint(want[g]) {
					r.Violation("differs-from-sequential:"+sc.name, desc(), fmt.Sprintf("goroutine %d: %v", g, want[g]), fmt.Sprintf("%v", got[g]))
					return
				}
			}
			if s := explore.Snapshot(w.shared); s != w.snap {
				r.Violation("shared-bindings-modified:"+sc.name, desc(), "shared binding values unchanged", trunc80(firstDiff(s, w.snap)))
			}
			outcomes[fmt.Sprint(got)] = true
			if first {
				first = false
				// determinism of the harness: replaying the same schedule gives the same point sequence
				again := sched.Execute(func() []func(s *sched.S) {
					b := mk()
					wrapped := make([]func(s *sched.S), len(b))
					for g := range b {
						g := g
						wrapped[g] = func(s *sched.S) { c04Cur = s; b[g](s) }
					}
					return wrapped
				}(), run.Choices)
				if len(again.Points) != len(run.Points) {
					panic(fmt.Sprintf("harness: schedule replay diverged for %s: %d vs %d points", sc.name, len(again.Points), len(run.Points)))
				}
				for k := range again.Points {
					if again.Points[k].Label != run.Points[k].Label {
						panic(fmt.Sprintf("harness: schedule replay diverged for %s at point %d: %s vs %s", sc.name, k, again.Points[k].Label, run.Points[k].Label))
					}
				}
			}
		})
		c04Cur = nil
		if f := os.Getenv("VERIF_C04_DEBUG"); f != "" && strings.Contains(sc.name, f) {
			if fh, err := os.OpenFile(os.Getenv("VERIF_C04_DEBUG_FILE"), os.O_APPEND|os.O_CREATE|os.O_WRONLY, 0o644); err == nil {
				fmt.Fprintf(fh, "C04 debug: %s shard %d: bound=%d schedules=%d outcomes=%d truncated=%v solo=%.300q\n", sc.name, shard, bound, execs, len(outcomes), truncated, fmt.Sprint(want))
				fh.Close()
			}
		}
		r.Count("schedules_explored", int64(execs))
		r.Count("library_sync_points_scheduled", syncPoints)
		if execs > 0 {
			r.Class(fmt.Sprintf("%s/outcomes=%d", strings.SplitN(sc.name, ":", 2)[0], len(outcomes)))
		}
		if truncated {
			r.Incomplete = append(r.Incomplete, fmt.Sprintf("schedules of %s capped (at %d executions or at the wall-clock budget): %d explored in this shard", sc.name, maxExec, execs))
		}
		if r.WantSample() && shard == 0 {
			r.Sample(map[string]any{"scenario": sc.name, "schedules_in_shard_0_of_16": execs, "preemption_bound": bound, "instrumented_template": w.src[sc.scripts[0][0].t]})
		}
	}})

	// (b) free-running race pass, one sub-process of the -race build per program
	progs := c04RacePrograms(tier)
	raceBin := os.Getenv("VERIF_MC_RACE")
	fams = append(fams, explore.Family{Name: "race-pass", Count: int64(len(progs)), Run: func(i int64, r *explore.Rec) {
		if raceBin == "" {
			r.Notes = append(r.Notes, "VERIF_MC_RACE not set: race pass not run")
			r.Incomplete = append(r.Incomplete, "race-pass (no -race binary)")
			return
		}
		cmd := exec.Command(raceBin, "--race-prog", tier, fmt.Sprint(i))
		cmd.Env = append(os.Environ(), "GORACE=halt_on_error=0 exitcode=0 history_size=3", "GOMAXPROCS=16")
		var so, se bytes.Buffer
		cmd.Stdout, cmd.Stderr = &so, &se
		err := cmd.Run()
		r.Eval()
		r.Count("race_pass_programs", 1)
		p := progs[i]
		desc := func() any { return map[string]any{"program": p.name, "templates": p.srcs} }
		if err != nil {
			r.Violation("race-pass-crashed:"+p.name, desc(), "the program runs", err.Error()+": "+trunc80(se.String()))
			return
		}
		for _, line := range strings.Split(so.String(), "\n") {
			if strings.HasPrefix(line, "MISMATCH") {
				r.Violation("concurrent-result-differs:"+p.group, desc(), "every concurrent result equals the sequential one", line)
			}
			if strings.HasPrefix(line, "RUNS ") {
				var n int64
				fmt.Sscanf(line, "RUNS %d", &n)
				r.Count("race_pass_goroutine_runs", n)
			}
		}
		races := c04ParseRaces(se.String())
		r.Class(fmt.Sprintf("race/%s/%d", p.group, len(races)))
		for _, k := range races {
			r.Violation("data-race:"+k, desc(), "no data race", c04RaceExcerpt(se.String()))
		}
		if r.WantSample() {
			r.Sample(map[string]any{"program": p.name, "templates": p.srcs, "race_reports": len(races)})
		}
	}})
	return fams
}

// ---------------------------------------------------------------- race pass

type c04Prog struct {
	name, group string
	srcs        []string // templates rendered concurrently (index 0 also parsed concurrently when parse is set)
	parse       bool
}

func c04RacePrograms(tier string) []c04Prog {
	var singles []struct{ group, src string }
	add := func(g, s string) { singles = append(singles, struct{ group, src string }{g, s}) }
	for _, s := range []string{
		"{% assign v = x %}{{ v }}", `{% include "` + c04IncName + `" %}`, "{% for i in l %}{% break %}{% endfor %}", "{% for i in l %}{% continue %}{{ i }}{% endfor %}",
		"{% for i in l %}{% cycle 'a', 'b' %}{% endfor %}", "{% capture c %}{{ x }}{% endcapture %}{{ c }}", "{% case x %}{% when 'X' %}W{% else %}E{% endcase %}",
		"{% comment %}c{% endcomment %}", "{% for i in l reversed limit: 2 offset: 1 %}{{ i }}{{ forloop.index }}{% else %}e{% endfor %}", "{% if x %}a{% elsif l %}b{% else %}c{% endif %}",
		"{% raw %}{{ r }}{% endraw %}", "{% tablerow i in l cols: 2 %}{{ i }}{% endtablerow %}", "{% unless x %}u{% else %}v{% endunless %}", " {{- x -}} {%- if x -%} t {%- endif -%} ",
	} {
		add("tag", s)
	}
	for _, f := range StdFilters() {
		if f == "date" {
			add("filter", "{{ 'March 14, 2016' | date: '%b %d, %y' }}")
			continue
		}
		add("filter", "{{ l | "+f+" }}{{ x | "+f+" }}{{ lm | "+f+": 'w' }}{{ d | "+f+" }}{{ 7 | "+f+": 2 }}")
	}
	for _, s := range []string{"{{ x == 'X' }}", "{{ l contains 2 }}", "{% if l.size > 2 and x %}t{% endif %}", "{{ l[0] }}{{ l[-1] }}{{ l.first }}", "{{ m.a }}{{ m['b'] }}{{ m.size }}",
		"{{ d.k }}{{ d.l | join }}{{ dl | join }}", "{{ (1..3) | join }}", "{{ st.A }}{{ pst.C | join }}{{ pint }}", "{{ nosuch.a.b }}{{ x | nosuchfilter }}", "{{ x | append: x | upcase }}",
		"{% for kv in m %}{{ kv[0] }}{% endfor %}", "{{ l | sort | reverse | uniq | compact | first }}",
		// outputs beyond typical buffer thresholds (64 KiB): results must still be private to each render
		"{{ big }}", "{{ big }}{{ big | size }}{% for i in l %}{{ big | slice: i, 3 }}{% endfor %}"} {
		add("expr", s)
	}
	var out []c04Prog
	for i, s := range singles {
		out = append(out, c04Prog{fmt.Sprintf("self:%s%d", s.group, i), s.group, []string{s.src}, false})
		out = append(out, c04Prog{fmt.Sprintf("parse+render:%s%d", s.group, i), s.group, []string{s.src}, true})
	}
	if tier == "thorough" {
		var tags []string
		for _, s := range singles {
			if s.group == "tag" {
				tags = append(tags, s.src)
			}
		}
		for a := range tags {
			for b := range tags {
				if a < b {
					out = append(out, c04Prog{fmt.Sprintf("pair:tag%d,tag%d", a, b), "tag-pair", []string{tags[a], tags[b]}, false})
				}
			}
		}
	}
	return out
}

type raceDrop struct{ v any }

func (d raceDrop) ToLiquid() any { return d.v }

// C04RaceProg is the body of the -race sub-process: runs program i free-running.
func C04RaceProg(tier string, i int) {
	progs := c04RacePrograms(tier)
	p := progs[i]
	newEngine := func() *liquid.Engine {
		eng := liquid.NewEngine()
		eng.RegisterFilter("y", func(v any) any { return v })
		eng.RegisterTag("y", func(c render.Context) (string, error) { return "", nil })
		if _, err := eng.ParseTemplateAndCache([]byte("inc[{% assign x = 'i' %}{{ x }}{% for i in l %}{% cycle '1', '2' %}{% endfor %}]"), c04IncName, 1); err != nil {
			panic(err)
		}
		return eng
	}
	n := 5
	shared := map[string]any{
		"x": "X", "l": []any{3, 1, 2, 1}, "lm": []any{map[string]any{"w": 2}, map[string]any{"w": 1}}, "m": map[string]any{"a": 1, "b": 2},
		"d": raceDrop{map[string]any{"k": 1, "l": []any{2, 1}}}, "dl": []any{raceDrop{1}, &univ.PDrop{V: "s"}},
		"st": univ.Plain{A: 1, C: []any{2, 1}}, "pst": &univ.Plain{A: 2, C: []any{1}}, "pint": &n,
		"big": strings.Repeat("0123456789abcdef", 5000),
	}
	// the sequential baseline is computed on an engine of its own, so that every concurrent phase
	// below starts on a cold engine (lazily built engine-wide state is raced on its first use)
	var solo []string
	{
		base := newEngine()
		for _, s := range p.srcs {
			t, err := base.ParseString(s)
			if err != nil {
				solo = append(solo, "ERR("+err.Error()+")")
				continue
			}
			out, rerr := t.Render(shared)
			solo = append(solo, Outcome{Out: string(out), Err: rerr}.Sig())
		}
	}
	runs := 0
	for _, procs := range []int{1, 4, 16} {
		runtime.GOMAXPROCS(procs)
		for _, goroutines := range []int{2, 8, 32} {
			eng := newEngine()
			var tpls []*liquid.Template
			for _, s := range p.srcs {
				t, err := eng.ParseString(s)
				if err != nil {
					tpls = append(tpls, nil)
					continue
				}
				tpls = append(tpls, t)
			}
			var wg sync.WaitGroup
			start := make(chan struct{})
			var mu sync.Mutex
			for g := 0; g < goroutines; g++ {
				wg.Add(1)
				g := g
				go func() {
					defer wg.Done()
					<-start
					k := g % len(tpls)
					if tpls[k] == nil {
						return
					}
					var sig string
					if p.parse && g%2 == 1 {
						t, err := eng.ParseString(p.srcs[k])
						if err != nil {
							sig = "ERR(" + err.Error() + ")"
						} else {
							out, rerr := t.Render(shared)
							sig = Outcome{Out: string(out), Err: rerr}.Sig()
						}
					} else {
						out, rerr := tpls[k].Render(shared)
						sig = Outcome{Out: string(out), Err: rerr}.Sig()
					}
					if len(sig) > 70000 {
						// keep the result, let others run, and read it again: it must not have been overwritten
						first := sig
						runtime.Gosched()
						out2, rerr2 := tpls[k].Render(map[string]any{"big": strings.Repeat(fmt.Sprint(g%10), 80000), "l": []any{1}})
						_ = out2
						_ = rerr2
						if sig != first {
							sig = "RESULT CHANGED AFTER IT WAS RETURNED"
						}
					}
					if sig != solo[k] {
						mu.Lock()
						fmt.Printf("MISMATCH template=%q concurrent=%q sequential=%q\n", p.srcs[k], sig, solo[k])
						mu.Unlock()
					}
				}()
			}
			close(start)
			wg.Wait()
			runs += goroutines
		}
	}
	fmt.Printf("RUNS %d\n", runs)
}

var raceFrameRe = regexp.MustCompile(`(?m)^  (github\.com/osteele/liquid[^\n]*?)\([^()\n]*\)$`)

// c04ParseRaces returns one key per race report: the first repository frame of each of the two accesses.
func c04ParseRaces(stderr string) []string {
	var keys []string
	seen := map[string]bool{}
	for _, rep := range strings.Split(stderr, "WARNING: DATA RACE")[1:] {
		if i := strings.Index(rep, "=================="); i >= 0 {
			rep = rep[:i]
		}
		// sections: "Write at"/"Read at" ... "Previous write at"/"Previous read at" ... "Goroutine"
		secs := regexp.MustCompile(`(?m)^(Write at|Read at|Previous write at|Previous read at)`).Split(rep, -1)
		var frames []string
		for _, s := range secs[1:] {
			if j := strings.Index(s, "\nGoroutine"); j >= 0 {
				s = s[:j]
			}
			if m := raceFrameRe.FindStringSubmatch(s); m != nil {
				f := strings.TrimPrefix(m[1], "github.com/osteele/liquid/")
				frames = append(frames, f)
			} else {
				frames = append(frames, "?")
			}
			if len(frames) == 2 {
				break
			}
		}
		sort.Strings(frames)
		k := strings.Join(frames, "<->")
		if !seen[k] {
			seen[k] = true
			keys = append(keys, k)
		}
	}
	return keys
}

func c04RaceExcerpt(stderr string) string {
	i := strings.Index(stderr, "WARNING: DATA RACE")
	if i < 0 {
		return ""
	}
	s := stderr[i:]
	if len(s) > 1500 {
		s = s[:1500]
	}
	return s
}

func init() {
	explore.Register(&explore.Prop{
		ID:    "C04",
		Level: "model_checking",
		Rule: "(a) controlled scheduler: one engine, templates parsed once, one shared bindings map (slices, maps, Drops); 2 goroutines (3 for three scenarios) each running a script of 1-2 operations from {Render, FRender, Parse+Render} that collide (same template twice, parse of the source concurrently with its render, two templates using the same names, two parses of different sources); " +
			"scheduling points are owned by the harness and planted densely: an identity filter on every object, a no-op tag after every tag and object, a block, ToLiquid of shared Drops, every Write of the FRender writer, the start of every operation; all schedules with <=2 preemptions (quick; <=1 for 3 goroutines) / <=3 (thorough; <=2 for 3 goroutines) are executed, every result must equal the solo result and the shared bindings must be unchanged; " +
			"(b) the same kind of bodies free-running in a separate -race build: one program per standard tag, per standard filter and per operator/access form, each rendered by 2, 8 and 32 goroutines at GOMAXPROCS 1, 4, 16 on the same parsed template, and concurrently with a parse of its own source (thorough: all pairs of tag programs); any race report or result differing from the sequential one is a violation; " +
			"state = schedule (choice sequence) of a scenario; transition/trace = one complete execution under that schedule",
		Assumptions: []string{
			"between two scheduling points a goroutine runs atomically; finer interleavings are the race pass's job: renders contain no synchronisation, so two conflicting accesses are unordered in every schedule and one free-running run per program exposes them to the detector (up to its bounded shadow history)",
			"the library's own synchronisation is owned too: ./check C04 compiles every repository file that imports \"sync\" from a copy derived at build time in which that import is rewritten to verifmc/syncshim, whose Mutex, RWMutex, Once, Pool (deterministic LIFO: a Put object goes to the very next Get of any goroutine), Map and WaitGroup make every operation a scheduling point and make blocking visible (nobody enabled = deadlock, a violation); the counter library_sync_points_scheduled shows they were reached; sync/atomic, sync.Cond and channels are not shimmed (the tree uses none; a tree that starts using Cond/OnceFunc falls back to the unshimmed build, reported as a note)",
			"the statement's 'static check for writes to captured variables' is static analysis (another technique family) and is not built; its defect class is covered dynamically by (b)",
		},
		Setup: func(string) { c04.solo = map[string]string{} },
		Post: func(tier string, r *explore.Rec) {
			if !c04ShimOn {
				r.Notes = append(r.Notes, "built WITHOUT the sync shim overlay: the library's own locks/onces/pools were not scheduling points in this run")
			}
		},
		Families: c04Families,
		Bound: func(tier string) string {
			if tier == "thorough" {
				return "preemption bound 3 (2 goroutines; 2 for the 60-deep include scenario) / 2 (3 goroutines); race pass over all self, parse+render and tag-pair programs"
			}
			return "preemption bound 2 (2 goroutines) / 1 (3 goroutines); race pass over all self and parse+render programs"
		},
	})
}
