package props

import (
	"fmt"
	"strings"
	"sync"

	"github.com/osteele/liquid"
	"github.com/osteele/liquid/render"
	"verifmc/explore"
)

// C06, block names that contain other block names: an application registers blocks whose names end in, begin
// with or extend the name of a standard block (uppercase / case, notif / if, therefor / for, recapture / capture,
// uncomment / comment, straw / raw, endless, caseend, ...). A block is closed by the end tag of ITS name only:
// for every ordered pair (X, Y) of block forms, X{Y{}} is accepted and renders by the pair's own definitions,
// the crossed X{Y{ endX endY and the foreign X{ endY are rejected.

type c06Form struct {
	name, open, close string
	custom            bool
	opaque            bool // comment: the body is dropped
}

var c06NameForms = func() []c06Form {
	fs := []c06Form{
		{"if", "{% if true %}", "{% endif %}", false, false}, {"unless", "{% unless false %}", "{% endunless %}", false, false},
		{"for", "{% for i in (1..1) %}", "{% endfor %}", false, false}, {"case", "{% case 1 %}{% when 1 %}", "{% endcase %}", false, false},
		{"capture", "{% capture c %}", "{% endcapture %}{{ c }}", false, false}, {"tablerow", "{% tablerow i in (1..1) %}", "{% endtablerow %}", false, false},
		{"comment", "{% comment %}", "{% endcomment %}", false, true},
	}
	for _, n := range c06CustomNames {
		fs = append(fs, c06Form{n, "{% " + n + " %}", "{% end" + n + " %}", true, false})
	}
	return fs
}()

var c06CustomNames = []string{"uppercase", "iffy", "notif", "forall", "therefor", "recapture", "uncomment", "straw", "rawr", "endless", "caseend", "if2", "un", "end_", "tablerows", "when2", "elsewhere", "casecase"}

var c06NamesEngine = sync.OnceValue(func() *liquid.Engine {
	e := liquid.NewEngine()
	for _, n := range c06CustomNames {
		n := n
		e.RegisterBlock(n, func(ctx render.Context) (string, error) {
			s, err := ctx.InnerString()
			if err != nil {
				return "", err
			}
			return "<" + n + ":" + s + ">", nil
		})
	}
	// plain (leaf) tags of the application whose names begin with "end" or with a block name: ordinary tags wherever they stand
	for _, n := range c06LeafNames {
		n := n
		e.RegisterTag(n, func(ctx render.Context) (string, error) { return "(" + n + ")", nil })
	}
	return e
})

var c06LeafNames = []string{"endnote", "ender", "end", "iffy2", "endifx", "forward", "endcasex"}

func (f c06Form) render(inner string) string {
	switch {
	case f.opaque:
		return ""
	case f.custom:
		return "<" + f.name + ":" + inner + ">"
	case f.name == "tablerow":
		return "<tr class=\"row1\"><td class=\"col1\">" + inner + "</td></tr>"
	}
	return inner
}

func c06NamesFamily() explore.Family {
	F := len(c06NameForms)
	return explore.Family{Name: "block-names-containing-other-block-names", Count: int64(F*F*4 + F*len(c06LeafNames)), Run: func(i int64, r *explore.Rec) {
		if i >= int64(F*F*4) {
			// a leaf tag named like an end tag inside (and next to) every block form
			j := int(i) - F*F*4
			x, leaf := c06NameForms[j/len(c06LeafNames)], c06LeafNames[j%len(c06LeafNames)]
			src := "{% " + leaf + " %}" + x.open + "a{% " + leaf + " 1 %}b" + x.close + "{% " + leaf + " %}"
			inner := "a(" + leaf + ")b"
			if x.opaque {
				inner = ""
			}
			want := "(" + leaf + ")" + x.render(inner) + "(" + leaf + ")"
			r.Eval()
			r.Transition()
			r.Trace()
			o := Render(c06NamesEngine(), src, map[string]any{})
			r.Class("leaf-names/" + o.Class())
			r.State("names:leaf")
			if o.Panic != nil || o.Err != nil || o.Out != want {
				r.Violation("block-names:leaf-tag-named-like-an-end-tag", map[string]any{"template": src, "block": x.name, "tag": leaf}, want, o.String())
			}
			return
		}
		rx := radix{i}
		shape, y, x := rx.next(4), c06NameForms[rx.next(F)], c06NameForms[rx.next(F)]
		if !x.custom && !y.custom {
			return // pairs of standard blocks are the subject of the other families
		}
		if x.name == y.name && shape != 0 && shape != 3 {
			return
		}
		var src, want string
		accept := false
		switch shape {
		case 0: // properly nested
			src = x.open + "a" + y.open + "b" + y.close + "c" + x.close
			inner := "a" + y.render("b") + "c"
			if x.opaque {
				inner = ""
			}
			want, accept = x.render(inner), true
		case 1: // crossed
			src = x.open + y.open + strings.SplitN(x.close, "{{", 2)[0] + strings.SplitN(y.close, "{{", 2)[0]
		case 2: // closed by the other's end tag
			src = x.open + "a" + strings.SplitN(y.close, "{{", 2)[0]
		case 3: // side by side, then a stray end tag of the second
			src = x.open + x.close + y.open + y.close
			want, accept = x.render("")+y.render(""), true
			if x.name == "capture" && y.name == "capture" {
				want = ""
			}
		}
		if x.opaque && shape == 1 {
			// inside a comment the inner opener is not a tag: {% comment %}{% Y %}{% endcomment %}{% endY %} ends in a stray end tag
			accept = false
		}
		r.Eval()
		r.Transition()
		r.Trace()
		o := Render(c06NamesEngine(), src, map[string]any{})
		r.Class(fmt.Sprintf("names/%d/%v", shape, o.Err == nil))
		r.State(fmt.Sprintf("names:%d", shape))
		desc := map[string]any{"template": src, "outer": x.name, "inner": y.name}
		switch {
		case o.Panic != nil:
			r.Violation("block-names:panic", desc, "accepted or rejected", o.String())
		case accept && (o.Err != nil || o.Out != want):
			r.Violation("block-names:well-nested-rejected-or-misrendered", desc, want, o.String())
		case !accept && o.Err == nil:
			r.Violation("block-names:closed-by-another-blocks-end-tag", desc, "rejected: a block is closed by the end tag of its own name only", o.String())
		}
	}}
}
