package props

import (
	"fmt"
	yaml "gopkg.in/yaml.v2"
	"math"
	"reflect"
	"sort"
	"strconv"
	"strings"
	"verifmc/univ"

	"github.com/osteele/liquid"
	"github.com/osteele/liquid/values"
	"verifmc/explore"
	"verifmc/ref"
)

// C15 — array filters compute their documented function and never modify their input.

type c15Alpha struct {
	name  string
	elems []ref.V
	gos   []any
	homog bool
	typed func(xs []any) any // typed slice representation (nil when impossible)
}

var c15 struct {
	eng    *liquid.Engine
	tpl    map[string]*liquid.Template
	alphas []c15Alpha
}

func c15Alphas() []c15Alpha {
	m := func(kv ...any) map[string]any {
		out := map[string]any{}
		for i := 0; i+1 < len(kv); i += 2 {
			out[kv[i].(string)] = kv[i+1]
		}
		return out
	}
	return []c15Alpha{
		{"ints", []ref.V{ref.Int(1), ref.Int(2), ref.Int(3)}, []any{1, 2, 3}, true, func(xs []any) any {
			out := make([]int, len(xs))
			for i, x := range xs {
				out[i] = x.(int)
			}
			return out
		}},
		{"floats", []ref.V{ref.Float(0.5), ref.Float(1.5), ref.Float(2.5)}, []any{0.5, 1.5, 2.5}, true, func(xs []any) any {
			out := make([]float64, len(xs))
			for i, x := range xs {
				out[i] = x.(float64)
			}
			return out
		}},
		{"strings", []ref.V{"a", "B", "b"}, []any{"a", "B", "b"}, true, func(xs []any) any {
			out := make([]string, len(xs))
			for i, x := range xs {
				out[i] = x.(string)
			}
			return out
		}},
		{"ints+nil", []ref.V{ref.Int(1), ref.Int(2), nil}, []any{1, 2, nil}, false, nil},
		// integers beyond 2^53: distinct values that collapse when routed through float64
		{"bigints", []ref.V{ref.Int(1 << 53), ref.Int(1<<53 + 1), ref.Int(1<<53 + 2)}, []any{1 << 53, 1<<53 + 1, 1<<53 + 2}, true, func(xs []any) any {
			out := make([]int64, len(xs))
			for i, x := range xs {
				out[i] = int64(x.(int))
			}
			return out
		}},
		{"maps", []ref.V{ref.NewMap("k", ref.Int(1)), ref.NewMap("k", ref.Int(2)), ref.NewMap("k", nil), ref.NewMap()},
			[]any{m("k", 1), m("k", 2), m("k", nil), m()}, false, func(xs []any) any {
				out := make([]map[string]any, len(xs))
				for i, x := range xs {
					out[i] = x.(map[string]any)
				}
				return out
			}},
		// arrays as elements: equal when element-wise equal, so [1] and ["1"] and [true] and ["true"] are four values
		{"nested", []ref.V{ref.List{ref.Int(1)}, ref.List{"1"}, ref.List{true}, ref.List{"true"}},
			[]any{[]any{1}, []any{"1"}, []any{true}, []any{"true"}}, false, func(xs []any) any {
				out := make([][]any, len(xs))
				for i, x := range xs {
					out[i] = x.([]any)
				}
				return out
			}},
	}
}

func c15HasList(in ref.List) bool {
	for _, x := range in {
		if _, ok := x.(ref.List); ok {
			return true
		}
	}
	return false
}

// c15Print prints one element the way an object prints it.
func c15Print(v ref.V) string {
	switch x := v.(type) {
	case *ref.Map:
		if len(x.Keys) == 0 {
			return "map[]"
		}
		val := x.Vals["k"]
		if val == nil {
			return "map[k:<nil>]"
		}
		s, _ := ref.Print(val)
		return "map[k:" + s + "]"
	}
	s, _ := ref.Print(v)
	return s
}

func c15Show(l ref.List) string {
	var sb strings.Builder
	for _, x := range l {
		sb.WriteString("[" + c15Print(x) + "]")
	}
	return sb.String()
}

type c15Filter struct {
	name   string // spelling in the template
	scalar bool   // result is a scalar (printed directly)
	// apply returns the expected result and whether it is exactly determined;
	// check, when non-nil, validates an under-determined result.
	apply func(in ref.List, a c15Alpha) (out ref.V, exact bool)
	check func(in ref.List, a c15Alpha, outShown string) string
}

func refEq(a, b ref.V) bool {
	if am, ok := a.(*ref.Map); ok {
		bm, ok := b.(*ref.Map)
		if !ok || len(am.Keys) != len(bm.Keys) {
			return false
		}
		for _, k := range am.Keys {
			bv, has := bm.Vals[k]
			if !has || !refEq(am.Vals[k], bv) {
				return false
			}
		}
		return true
	}
	return ref.Equal(a, b) == ref.True
}

func multiset(l ref.List) string {
	var ss []string
	for _, x := range l {
		ss = append(ss, "["+c15Print(x)+"]")
	}
	sort.Strings(ss)
	return strings.Join(ss, "")
}

func splitShown(s string) []string {
	var out []string
	for len(s) > 0 {
		j := strings.Index(s, "]")
		if s[0] != '[' || j < 0 {
			return nil
		}
		// map elements contain ']' themselves: map[k:1]
		if strings.HasPrefix(s, "[map[") {
			j = strings.Index(s, "]]") + 1
		}
		out = append(out, s[1:j])
		s = s[j+1:]
	}
	return out
}

var c15Other = ref.List{ref.Int(9), "z", nil}

func c15Filters() []c15Filter {
	permCheck := func(in ref.List, shown string) string {
		got := splitShown(shown)
		var ss []string
		for _, g := range got {
			ss = append(ss, "["+g+"]")
		}
		sort.Strings(ss)
		if strings.Join(ss, "") != multiset(in) {
			return "not a permutation of the input"
		}
		return ""
	}
	return []c15Filter{
		{name: "sort", apply: func(in ref.List, a c15Alpha) (ref.V, bool) {
			if !a.homog {
				return nil, false
			}
			out := append(ref.List{}, in...)
			sort.SliceStable(out, func(i, j int) bool { return ref.Less(out[i], out[j]) == ref.True })
			return out, true
		}, check: func(in ref.List, a c15Alpha, shown string) string { return permCheck(in, shown) }},
		{name: `sort: "k"`, apply: func(in ref.List, a c15Alpha) (ref.V, bool) { return nil, false },
			check: func(in ref.List, a c15Alpha, shown string) string {
				if e := permCheck(in, shown); e != "" {
					return e
				}
				if a.name != "maps" {
					return ""
				}
				// entries lacking the key first; entries with a non-nil key ascending
				seenKeyed := false
				last := ""
				for _, g := range splitShown(shown) {
					switch {
					case g == "map[]":
						if seenKeyed {
							return "an entry lacking the key comes after an entry that has it"
						}
					case g == "map[k:<nil>]":
					default:
						seenKeyed = true
						if last != "" && g < last {
							return "entries not ascending by key"
						}
						last = g
					}
				}
				return ""
			}},
		{name: "sort_natural", apply: func(in ref.List, a c15Alpha) (ref.V, bool) { return nil, false },
			check: func(in ref.List, a c15Alpha, shown string) string {
				if e := permCheck(in, shown); e != "" {
					return e
				}
				if a.name == "strings" {
					last := ""
					for _, g := range splitShown(shown) {
						l := strings.ToLower(g)
						if l < last {
							return "not in case-insensitive order"
						}
						last = l
					}
				}
				return ""
			}},
		{name: "reverse", apply: func(in ref.List, a c15Alpha) (ref.V, bool) {
			out := make(ref.List, len(in))
			for i, x := range in {
				out[len(in)-1-i] = x
			}
			return out, true
		}},
		{name: "uniq", apply: func(in ref.List, a c15Alpha) (ref.V, bool) {
			out := ref.List{}
			for _, x := range in {
				dup := false
				for _, y := range out {
					if refEq(x, y) {
						dup = true
					}
				}
				if !dup {
					out = append(out, x)
				}
			}
			return out, true
		}},
		{name: "compact", apply: func(in ref.List, a c15Alpha) (ref.V, bool) {
			out := ref.List{}
			for _, x := range in {
				if x != nil {
					out = append(out, x)
				}
			}
			return out, true
		}},
		{name: "concat: other", apply: func(in ref.List, a c15Alpha) (ref.V, bool) {
			return append(append(ref.List{}, in...), c15Other...), true
		}},
		// the ARGUMENT written as a range: its integers are appended, an empty range appends nothing
		{name: "concat: (7..9)", apply: func(in ref.List, a c15Alpha) (ref.V, bool) {
			return append(append(ref.List{}, in...), ref.Int(7), ref.Int(8), ref.Int(9)), true
		}},
		{name: "concat: (3..1)", apply: func(in ref.List, a c15Alpha) (ref.V, bool) { return append(ref.List{}, in...), true }},
		{name: `map: "k"`, apply: func(in ref.List, a c15Alpha) (ref.V, bool) {
			out := ref.List{}
			for _, x := range in {
				if m, ok := x.(*ref.Map); ok {
					out = append(out, m.Vals["k"])
				} else {
					out = append(out, nil)
				}
			}
			return out, true
		}},
		{name: "first", scalar: true, apply: func(in ref.List, a c15Alpha) (ref.V, bool) {
			if len(in) == 0 {
				return nil, true
			}
			return in[0], true
		}},
		{name: "last", scalar: true, apply: func(in ref.List, a c15Alpha) (ref.V, bool) {
			if len(in) == 0 {
				return nil, true
			}
			return in[len(in)-1], true
		}},
		{name: "size", scalar: true, apply: func(in ref.List, a c15Alpha) (ref.V, bool) { return ref.Int(int64(len(in))), true }},
		// (how join spells an element that is itself an array is not stated: not judged on the nested alphabet)
		{name: "join", scalar: true, apply: func(in ref.List, a c15Alpha) (ref.V, bool) { return c15Join(in, " "), !c15HasList(in) }},
		{name: `join: ","`, scalar: true, apply: func(in ref.List, a c15Alpha) (ref.V, bool) { return c15Join(in, ","), !c15HasList(in) }},
	}
}

func c15Join(in ref.List, sep string) string {
	var ss []string
	for _, x := range in {
		if x != nil {
			ss = append(ss, c15Print(x))
		}
	}
	return strings.Join(ss, sep)
}

// representations of an array
func c15Reprs(a c15Alpha, idx []int) (names []string, builds []func() any) {
	gen := func() []any {
		out := make([]any, len(idx))
		for i, j := range idx {
			out[i] = a.gos[j]
			if m, ok := out[i].(map[string]any); ok { // fresh map per element
				c := map[string]any{}
				for k, v := range m {
					c[k] = v
				}
				out[i] = c
			}
		}
		return out
	}
	names = append(names, "[]any")
	builds = append(builds, func() any { return gen() })
	// the same slice with spare capacity holding sentinels: an append to the receiver would write there
	names = append(names, "[]any+spare-capacity")
	builds = append(builds, func() any {
		g := gen()
		full := make([]any, len(g), len(g)+4)
		copy(full, g)
		for i, sp := len(g), full[:cap(full)]; i < len(sp); i++ {
			sp[i] = "SENTINEL"
		}
		return full
	})
	// a named slice type whose underlying type is []any: it can be read without any conversion
	names = append(names, "named-[]any")
	builds = append(builds, func() any { return univ.NamedAnys(gen()) })
	// a fixed array whose element type is the empty interface: it can hold whatever the generic slice holds, nil included
	names = append(names, "fixed-array-of-any")
	builds = append(builds, func() any {
		g := gen()
		arr := reflect.New(reflect.ArrayOf(len(g), reflect.TypeOf((*any)(nil)).Elem())).Elem()
		for i, x := range g {
			if x != nil {
				arr.Index(i).Set(reflect.ValueOf(x))
			}
		}
		return arr.Interface()
	})
	if a.name == "maps" {
		// the elements as YAML decoding produces them: interface-keyed maps
		names = append(names, "elements-as-map[any]any")
		builds = append(builds, func() any {
			g := gen()
			for i, x := range g {
				m := map[any]any{}
				for k, v := range x.(map[string]any) {
					m[k] = v
				}
				g[i] = m
			}
			return g
		})
	}
	if a.typed != nil {
		names = append(names, "typed-slice")
		builds = append(builds, func() any { return a.typed(gen()) })
		names = append(names, "fixed-array")
		builds = append(builds, func() any {
			ts := reflect.ValueOf(a.typed(gen()))
			arr := reflect.New(reflect.ArrayOf(ts.Len(), ts.Type().Elem())).Elem()
			reflect.Copy(arr, ts)
			return arr.Interface()
		})
	}
	if a.name == "ints" && len(idx) > 0 {
		consecutive := true
		for i := 1; i < len(idx); i++ {
			if idx[i] != idx[i-1]+1 {
				consecutive = false
			}
		}
		if consecutive {
			lo, hi := idx[0]+1, idx[len(idx)-1]+1
			names = append(names, "range")
			builds = append(builds, func() any { return values.NewRange(lo, hi) })
		}
	}
	return
}

func c15Render(src string, b map[string]any) (o Outcome) {
	t, ok := c15.tpl[src]
	if !ok {
		var err liquid.SourceError
		t, err = c15.eng.ParseString(src)
		if err != nil {
			panic(explore.BaselineFailure{Msg: "harness: " + src + ": " + err.Error()})
		}
		c15.tpl[src] = t
	}
	o.Panic = explore.Safe(func() {
		out, err := t.Render(b)
		o.Out, o.Err = string(out), err
	})
	return
}

const c15ShowA = "{% for x in a %}[{{ x }}]{% endfor %}"

func c15NestedArgFamily() explore.Family {
	cases := [][2]string{{"a | concat: ARG | join", "b | reverse"}, {"a | reverse | concat: ARG | join", "b | sort"}, {"a | join: ARG", "seps | first"}, {"a | sort | join: ARG", "seps | last"},
		{"ms | sort: ARG | map: 'k' | join", "keys | first"}, {"ms | reverse | sort: ARG | map: 'k' | join", "keys | last"}, {"a | uniq | concat: ARG | size", "b | compact"}, {"a | compact | map: ARG | size", "keys | first"},
		{"a | sort | concat: ARG | concat: ARG | join", "b | uniq"}, {"a | reverse | first | plus: ARG", "b | size"}}
	return explore.Family{Name: "filtered-expressions-as-arguments", Count: int64(len(cases)), Run: func(i int64, r *explore.Rec) {
		c := cases[i]
		r.Trace()
		r.Class("nested-arg")
		nestedArgLaw(r, c15.eng, "wrong:filtered-expression-as-argument", c[0], c[1], map[string]any{"a": []any{3, 1, 2, 1}, "b": []any{"y", nil, "x", "y"}, "seps": []any{"+", "-"}, "keys": []any{"k", "j"},
			"ms": []any{map[string]any{"k": 2, "j": 1}, map[string]any{"k": 1, "j": 2}, map[string]any{"j": 0}}})
	}}
}

func c15Families(tier string) []explore.Family {
	if c15.alphas == nil {
		c15.alphas = c15Alphas()
	}
	maxLen := 3
	if tier == "thorough" {
		maxLen = 5
	}
	filters := c15Filters()
	NF := len(filters)
	// pipelines: single filters, then chains of two (first stage list-producing)
	type pipe struct{ f, g int }
	var pipes []pipe
	for f := range filters {
		pipes = append(pipes, pipe{f, -1})
	}
	for f := range filters {
		if filters[f].scalar {
			continue
		}
		for g := range filters {
			pipes = append(pipes, pipe{f, g})
		}
	}
	_ = NF
	var fams []explore.Family
	for _, a := range c15.alphas {
		a := a
		K := len(a.elems)
		arrays := seqCount(K, maxLen)
		fams = append(fams, explore.Family{Name: "arrays-" + a.name, Count: arrays * int64(len(pipes)), Run: func(i int64, r *explore.Rec) {
			p := pipes[i%int64(len(pipes))]
			idx := seqAt(K, i/int64(len(pipes)))
			in := make(ref.List, len(idx))
			for j, k := range idx {
				in[j] = a.elems[k]
			}
			f := filters[p.f]
			spelling := f.name
			exp, exact := f.apply(in, a)
			var g *c15Filter
			if p.g >= 0 {
				g = &filters[p.g]
				spelling += " | " + g.name
			}
			scalar := f.scalar
			if g != nil {
				scalar = g.scalar
			}
			var src string
			if scalar {
				src = "{{ a | " + spelling + " }}#" + c15ShowA
			} else {
				src = "{% assign r = a | " + spelling + " %}{% for x in r %}[{{ x }}]{% endfor %}#" + c15ShowA + "#{{ r | size }}"
			}
			names, builds := c15Reprs(a, idx)
			var base string
			for ri := range builds {
				r.Eval()
				r.Transition()
				av := builds[ri]()
				before := explore.Snapshot(av)
				o := c15Render(src, map[string]any{"a": av, "other": []any{9, "z", nil}})
				if after := explore.Snapshot(av); after != before {
					r.Violation("input-modified:"+spelling+":"+names[ri], map[string]any{"template": src, "a": ref.Show(in), "representation": names[ri]},
						"the bound array (up to its capacity) is unchanged", trunc80(firstDiff(after, before)))
				}
				desc := func() any {
					return map[string]any{"template": src, "a": ref.Show(in), "representation": names[ri], "other": `[9,"z",nil]`}
				}
				key := spelling
				if o.Panic != nil || o.Err != nil {
					r.Violation("fails:"+key+":"+names[ri], desc(), "output", o.String())
					continue
				}
				if ri == 0 {
					base = o.Out
					parts := strings.Split(o.Out, "#")
					// (M) the input renders unchanged after the filter ran
					if len(parts) < 2 || parts[1] != c15Show(in) {
						r.Violation("input-modified:"+key, desc(), "input renders as "+c15Show(in)+" after the filter", o.Out)
					}
					// expected value
					if g == nil {
						c15Judge(r, key, desc, &f, a, in, exp, exact, parts[0])
					} else if exact {
						if mid, ok := exp.(ref.List); ok {
							a2 := a
							if strings.HasPrefix(f.name, "concat") || strings.HasPrefix(f.name, "map") {
								// the intermediate list is no longer over this alphabet
								a2 = c15Alpha{name: "mixed", homog: false}
							}
							exp2, exact2 := g.apply(mid, a2)
							c15Judge(r, key, desc, g, a2, mid, exp2, exact2, parts[0])
						}
					} else {
						// first stage under-determined: the second stage is checked only through non-mutation and totality
						r.Class(key + "/first-stage-underdetermined")
					}
					if !scalar && len(parts) == 3 {
						if n := len(splitShown(parts[0])); strconv.Itoa(n) != parts[2] {
							r.Violation("size-disagrees:"+key, desc(), "size = number of elements iterated", o.Out)
						}
					}
					if g != nil && !f.scalar {
						// the intermediate value x = a | F must survive being filtered twice
						show := func(v string) string { return "{% for e in " + v + " %}[{{ e }}]{% endfor %}" }
						tail := func(v string) string {
							if g.scalar {
								return "{{ " + v + " }}"
							}
							return show(v)
						}
						src2 := "{% assign x = a | " + f.name + " %}" + show("x") + "#{% assign y = x | " + g.name + " %}{% assign z = x | " + g.name + " %}" + show("x") + "#" + tail("y") + "#" + tail("z")
						r.Eval()
						o2 := c15Render(src2, map[string]any{"a": builds[0](), "other": []any{9, "z", nil}})
						if o2.Err == nil && o2.Panic == nil {
							p2 := strings.Split(o2.Out, "#")
							if len(p2) == 4 && (p2[0] != p2[1] || p2[2] != p2[3]) {
								r.Violation("intermediate-modified:"+key, map[string]any{"template": src2, "a": ref.Show(in)}, "x unchanged by filtering it, and both results equal", o2.Out)
							}
						}
					}
					r.Trace()
					r.State(a.name + ":" + strconv.Itoa(len(in)))
					if r.WantSample() {
						r.Sample(map[string]any{"case": desc(), "observed": o.Out})
					}
				} else if o.Out != base && names[ri] != "[]any+spare-capacity" || (names[ri] == "[]any+spare-capacity" && o.Out != base) {
					// (R) every representation behaves as the generic slice
					if spelling == "sort" && !a.homog {
						continue
					}
					r.Violation("representation:"+names[ri]+":"+key, desc(), "same as []any: "+base, o.Out)
				}
			}
		}})
	}
	// sort by a key whose NAME is also a built-in property of maps and arrays (size, first, last): "entries lacking
	// the key first" is about the key, not about what x.size would say for a map without such a key
	bkKeys := []string{"size", "first", "last", "k"}
	bkLen := 3
	if tier == "thorough" {
		bkLen = 4
	}
	const bkElems = 5
	// the two key values of the keyed elements, small and (for the last key name) huge neighbours: integers beyond 2^53
	// that a float64 cannot tell apart, in several widths
	bigPairs := [][2]any{{1, 2}, {1<<53 + 0, 1<<53 + 1}, {int64(math.MaxInt64 - 1), int64(math.MaxInt64)}, {uint64(math.MaxUint64 - 1), uint64(math.MaxUint64)}, {-(1<<53 + 1), -(1 << 53)}, {1.5, 2}}
	fams = append(fams, explore.Family{Name: "sort-by-key-named-like-a-property", Count: seqCount(bkElems, bkLen) * int64(len(bkKeys)) * int64(len(bigPairs)), Run: func(i int64, r *explore.Rec) {
		bigKeys := bigPairs[i%int64(len(bigPairs))]
		i /= int64(len(bigPairs))
		K := bkKeys[i%int64(len(bkKeys))]
		idx := seqAt(bkElems, i/int64(len(bkKeys)))
		mk := func(j, pos int) map[string]any {
			id := fmt.Sprintf("%d.%d", j, pos) // element kind . position in the input
			switch j {
			case 0:
				return map[string]any{K: bigKeys[1], "id": id}
			case 1:
				return map[string]any{K: bigKeys[0], "id": id, "z": 0}
			case 2:
				return map[string]any{"id": id, "p": 1, "q": 2, "r": 3, "s": 4} // lacks the key, has five entries
			case 3:
				return map[string]any{"id": id} // lacks the key, one entry
			}
			return map[string]any{K: nil, "id": id}
		}
		arr := make([]any, len(idx))
		for pos, j := range idx {
			arr[pos] = mk(j, pos)
		}
		src := `{% assign r = a | sort: "` + K + `" %}{% for x in r %}{{ x.id }},{% endfor %}`
		r.Eval()
		r.Transition()
		r.Trace()
		o := c15Render(src, map[string]any{"a": arr})
		desc := func() any {
			return map[string]any{"template": src, "elements(kind.position)": fmt.Sprint(idx), "key": K, "key_values_of_kinds_1_and_0": fmt.Sprint(bigKeys)}
		}
		if o.Panic != nil || o.Err != nil {
			r.Violation("fails:sort-by-builtin-named-key", desc(), "output", o.String())
			return
		}
		ids := strings.Split(strings.TrimSuffix(o.Out, ","), ",")
		if o.Out == "" {
			ids = nil
		}
		seen := map[string]bool{}
		keyed, lastKey := false, 0
		bad := ""
		for _, id := range ids {
			if seen[id] || len(id) < 3 {
				bad = "not a permutation"
			}
			seen[id] = true
			switch id[0] {
			case '2', '3': // lacking the key
				if keyed {
					bad = "an entry lacking the key comes after an entry that has it"
				}
			case '0', '1':
				kv := map[byte]int{'0': 2, '1': 1}[id[0]]
				if keyed && kv < lastKey {
					bad = "entries not ascending by key"
				}
				keyed, lastKey = true, kv
			}
		}
		if len(ids) != len(idx) {
			bad = "not a permutation"
		}
		r.Class("sort-builtin-key/" + K)
		if bad != "" {
			r.Violation("wrong:sort-by-key-named-like-a-property", desc(), "a permutation, entries lacking the key first, then ascending by key", bad+": "+o.Out)
		}
	}})

	// ordered maps (yaml.MapSlice) are accepted as arrays. WHICH array an ordered map stands for (its values, or
	// its [key, value] pairs) is not stated, so the law is representation-agnostic: every filter must see the same
	// array view of it. With e = a | reverse | reverse (the view, materialised as a generic slice by the
	// implementation itself), every pipeline P gives a | P == e | P, for the map by value, by pointer and in a Drop.
	pairKeys := []any{"a", "b", "c", 1}
	pairVals := []any{1, "x", nil, []any{2, 1}}
	omLen := 3
	if tier == "thorough" {
		omLen = 4
	}
	nPair := len(pairKeys) * len(pairVals)
	fams = append(fams, explore.Family{Name: "ordered-map-as-array", Count: seqCount(nPair, omLen) * int64(len(pipes)), Run: func(i int64, r *explore.Rec) {
		p := pipes[i%int64(len(pipes))]
		idx := seqAt(nPair, i/int64(len(pipes)))
		for a := range idx { // keys of an ordered map are distinct
			for b := a + 1; b < len(idx); b++ {
				if idx[a]/len(pairVals) == idx[b]/len(pairVals) {
					return
				}
			}
		}
		f := filters[p.f]
		spelling := f.name
		scalar := f.scalar
		if p.g >= 0 {
			spelling += " | " + filters[p.g].name
			scalar = filters[p.g].scalar
		}
		show := func(v string) string {
			if scalar {
				return "{{ " + v + " | " + spelling + " }}"
			}
			return "{% assign r = " + v + " | " + spelling + " %}{% for x in r %}[{{ x }}]{% endfor %}/{{ r | size }}"
		}
		src := "{% assign e = a | reverse | reverse %}" + show("a") + "#" + show("e") + "#{{ a | size }}/{{ e | size }}/{% for x in e %}i{% endfor %}"
		ms := func() yaml.MapSlice {
			var out yaml.MapSlice
			for _, k := range idx {
				out = append(out, yaml.MapItem{Key: pairKeys[k/len(pairVals)], Value: pairVals[k%len(pairVals)]})
			}
			return out
		}
		reprs := []struct {
			name  string
			build func() any
		}{
			{"yaml.MapSlice", func() any { return ms() }},
			{"*yaml.MapSlice", func() any { m := ms(); return &m }},
			{"Drop{yaml.MapSlice}", func() any { return univ.Drop{V: ms()} }},
		}
		for _, rp := range reprs {
			r.Eval()
			r.Transition()
			r.Trace()
			av := rp.build()
			before := explore.Snapshot(av)
			o := c15Render(src, map[string]any{"a": av, "other": []any{9, "z", nil}})
			desc := func() any {
				return map[string]any{"template": src, "ordered_map": fmt.Sprint(ms()), "representation": rp.name, "other": `[9,"z",nil]`}
			}
			if explore.Snapshot(av) != before {
				r.Violation("input-modified:"+spelling+":"+rp.name, desc(), "the bound value is unchanged", "changed")
			}
			if o.Panic != nil {
				r.Violation("fails:"+spelling+":"+rp.name, desc(), "output or error", o.String())
				continue
			}
			r.Class("ordered-map/" + o.Class())
			if o.Err != nil {
				continue // the pipeline fails on this content (e.g. map: on scalars); totality is C01's business
			}
			parts := strings.Split(o.Out, "#")
			if len(parts) != 3 || parts[0] != parts[1] {
				r.Violation("representation:ordered-map:"+spelling, desc(), "a | P renders as e | P where e = a | reverse | reverse", o.Out)
				continue
			}
			if sz := strings.Split(parts[2], "/"); len(sz) != 3 || sz[0] != sz[1] || sz[1] != strconv.Itoa(len(sz[2])) {
				r.Violation("representation:ordered-map:size", desc(), "a | size == e | size == number of elements of e", parts[2])
			}
		}
	}})

	// scaled family: lengths far beyond the exhaustive bound (thresholds such as 8, 16, 32, 64 ...), a few
	// deterministic patterns per alphabet, every single filter and chain of two
	lengths := []int{6, 7, 8, 9, 12, 13, 15, 16, 17, 20, 31, 32, 33, 50, 63, 64, 65, 100, 127, 128, 129, 255, 256, 257, 1000}
	patterns := []string{"ascending", "descending", "constant", "alternating", "sawtooth"}
	for _, a := range c15.alphas {
		a := a
		fams = append(fams, explore.Family{Name: "scaled-" + a.name, Count: int64(len(lengths) * len(patterns) * len(pipes)), Run: func(i int64, r *explore.Rec) {
			rx := radix{i}
			p, pat, n := pipes[rx.next(len(pipes))], patterns[rx.next(len(patterns))], lengths[rx.next(len(lengths))]
			K := len(a.elems)
			idx := make([]int, n)
			for j := range idx {
				switch pat {
				case "ascending":
					idx[j] = j * K / n
				case "descending":
					idx[j] = (n - 1 - j) * K / n
				case "constant":
					idx[j] = K - 1
				case "alternating":
					idx[j] = j % 2 * (K - 1)
				default:
					idx[j] = j % K
				}
			}
			in := make(ref.List, n)
			gos := make([]any, n)
			for j, k := range idx {
				in[j], gos[j] = a.elems[k], a.gos[k]
			}
			f := filters[p.f]
			spelling := f.name
			exp, exact := f.apply(in, a)
			var g *c15Filter
			if p.g >= 0 {
				g = &filters[p.g]
				spelling += " | " + g.name
			}
			scalar := f.scalar
			if g != nil {
				scalar = g.scalar
			}
			src := "{% assign r = a | " + spelling + " %}{% for x in r %}[{{ x }}]{% endfor %}#" + c15ShowA
			if scalar {
				src = "{{ a | " + spelling + " }}#" + c15ShowA
			}
			r.Eval()
			r.Transition()
			r.Trace()
			before := explore.Snapshot(gos)
			o := c15Render(src, map[string]any{"a": gos, "other": []any{9, "z", nil}})
			desc := func() any {
				return map[string]any{"template": src, "length": n, "pattern": pat, "alphabet": a.name, "other": `[9,"z",nil]`}
			}
			key := "scaled:" + spelling
			if o.Panic != nil || o.Err != nil {
				r.Violation("fails:"+key, desc(), "output", trunc80(o.String()))
				return
			}
			if explore.Snapshot(gos) != before {
				r.Violation("input-modified:"+key, desc(), "the bound array is unchanged", "changed")
			}
			parts := strings.Split(o.Out, "#")
			if len(parts) < 2 || parts[1] != c15Show(in) {
				r.Violation("input-modified:"+key, desc(), "input renders unchanged after the filter", trunc80(o.Out))
				return
			}
			if g == nil {
				c15Judge(r, key, desc, &f, a, in, exp, exact, parts[0])
			} else if exact {
				if mid, ok := exp.(ref.List); ok {
					a2 := a
					if strings.HasPrefix(f.name, "concat") || strings.HasPrefix(f.name, "map") {
						a2 = c15Alpha{name: "mixed", homog: false}
					}
					exp2, exact2 := g.apply(mid, a2)
					c15Judge(r, key, desc, g, a2, mid, exp2, exact2, parts[0])
				}
			}
			r.State(fmt.Sprintf("%s:scaled", a.name))
		}})
	}
	fams = append(fams, c15NestedArgFamily())
	return fams
}

func c15Judge(r *explore.Rec, key string, desc func() any, f *c15Filter, a c15Alpha, in ref.List, exp ref.V, exact bool, shown string) {
	if exact {
		var want string
		if l, ok := exp.(ref.List); ok && !f.scalar {
			want = c15Show(l)
		} else {
			want = c15Print(exp)
		}
		if shown != want {
			r.Violation("wrong:"+key, desc(), want, shown)
		}
		r.Class(key + "/exact")
		return
	}
	if f.check != nil {
		if e := f.check(in, a, shown); e != "" {
			r.Violation("wrong:"+key, desc(), fmt.Sprintf("%s (input %s)", e, c15Show(in)), shown)
		}
	}
	r.Class(key + "/predicate")
}

func init() {
	explore.Register(&explore.Prop{
		ID:    "C15",
		Level: "model_checking",
		Rule: "all arrays of length <=3 (quick) / <=5 (thorough) over six element alphabets (ints, floats, strings, ints+nil, integers beyond 2^53, maps with present/absent/nil key), each in every Go representation that can hold it ([]any, typed slice, fixed array, Range), " +
			"through each of 13 array filters and all chains of two of them; plus ordered maps (yaml.MapSlice of <=3|4 entries over 4 keys x 4 values, by value, by pointer and in a Drop) under the representation-agnostic law a | P == (a | reverse | reverse) | P for every pipeline P and size agreement; plus a scaled family: lengths 6..1000 (25 lengths around powers of two) x 5 deterministic patterns per alphabet through every pipeline; oracle = list functions of the reference model, permutation/order predicates for sort, non-mutation of the input inside the render, equality across representations; " +
			"state = (alphabet, length); transition = one pipeline on one representation; trace = one (array, pipeline) validated on the implementation",
		Assumptions: []string{
			"sort order between unlike kinds, with nil, and between maps is unspecified (permutation still required); sort stability is not required",
			"elements are printed through {% for x in r %}[{{ x }}]{% endfor %}; maps print in fmt's key-sorted syntax",
			"ordered YAML maps as array-filter input are not enumerated (DESIGN.md 3.4)",
		},
		Setup: func(string) {
			c15.eng = liquid.NewEngine()
			c15.tpl = map[string]*liquid.Template{}
		},
		Families: c15Families,
		Bound: func(tier string) string {
			if tier == "thorough" {
				return "arrays of length <=5; 13 filters + 104 chains of two; 2-4 representations"
			}
			return "arrays of length <=3; 13 filters + 104 chains of two; 2-4 representations"
		},
	})
}
