package props

import (
	"errors"
	"fmt"
	"strconv"
	"strings"

	"github.com/osteele/liquid"
	"verifmc/explore"
	"verifmc/ref"
	"verifmc/univ"
)

// C10 — conditional tags render exactly the first branch whose condition is truthy.

var c10 struct {
	eng *liquid.Engine
	log []int
	u   []univ.Val
	u2  []univ.Val
}

type truthVal struct {
	name string
	v    func() any
	t    bool
}

var c10T = []truthVal{
	{"n", func() any { return nil }, false}, {"f", func() any { return false }, false}, {"t", func() any { return true }, true},
	{"z", func() any { return 0 }, true}, {"e", func() any { return "" }, true}, {"l", func() any { return []any{} }, true},
	{"m", func() any { return map[string]any{} }, true}, {"x", func() any { return "x" }, true}, {"h", func() any { return 1.5 }, true},
	// empty collections are truthy whatever their Go representation (nil slice, nil map)
	{"ns", func() any { return []string(nil) }, true}, {"nm", func() any { return map[string]any(nil) }, true},
	// Drops are judged by the value they yield, pointers by what they point at
	{"dn", func() any { return univ.Drop{V: nil} }, false}, {"df", func() any { return univ.Drop{V: false} }, false},
	{"dt", func() any { return univ.Drop{V: true} }, true}, {"dz", func() any { return &univ.PDrop{V: 0} }, true},
	{"pf", func() any { f := false; return &f }, false},
}

func c10Bind() map[string]any {
	b := map[string]any{}
	for _, t := range c10T {
		b[t.name] = t.v()
	}
	return b
}

func c10Setup(string) {
	c10.eng = liquid.NewEngine()
	c10.eng.RegisterFilter("probe", func(v any, k int) any {
		c10.log = append(c10.log, k)
		return v
	})
	c10.eng.RegisterFilter("fail", func(v any) (any, error) { return nil, errors.New("poisoned condition was evaluated") })
	c10.u = c09Universe()
	c10.u2 = c10CaseUniverse(c10.u)
}

// c10CaseUniverse: the reduced universe plus the same numbers in other numeric kinds
// (case must select by ==, which compares numbers of every width by value).
func c10CaseUniverse(u []univ.Val) []univ.Val {
	var out []univ.Val
	extra := map[string]bool{"f1": true, "int64_3": true, "uint8_1": true, "float64_3": true, "float32_1": true, "drop_1": true, "drop_a": true}
	for _, v := range u {
		if v.Small || extra[v.Name] {
			out = append(out, v)
		}
	}
	return out
}

func c10Families(tier string) []explore.Family {
	maxB := 4
	if tier == "thorough" {
		maxB = 6
	}
	T := len(c10T)
	var fams []explore.Family
	// --- if / elsif / else chains
	for b := 1; b <= maxB; b++ {
		b := b
		vals := T
		idxs := make([]int, T)
		for j := range idxs {
			idxs[j] = j
		}
		if b >= 5 {
			idxs = []int{0, 1, 3, 7} // nil, false, 0, "x"
			vals = len(idxs)
		}
		cnt := int64(2 * 2) // else?, poison?
		for j := 0; j < b; j++ {
			cnt *= int64(vals)
		}
		fams = append(fams, explore.Family{Name: fmt.Sprintf("if-%d-branches", b), Count: cnt, Run: func(i int64, r *explore.Rec) {
			rx := radix{i}
			hasElse, poison := rx.next(2) == 1, rx.next(2) == 1
			conds := make([]truthVal, b)
			for j := range conds {
				conds[j] = c10T[idxs[rx.next(vals)]]
			}
			sel := -1
			for j, c := range conds {
				if c.t {
					sel = j
					break
				}
			}
			var sb strings.Builder
			for j, c := range conds {
				kw := "elsif"
				if j == 0 {
					kw = "if"
				}
				cond := fmt.Sprintf("%s | probe: %d", c.name, j+1)
				if poison && sel >= 0 && j > sel {
					cond = c.name + " | fail"
				}
				sb.WriteString(fmt.Sprintf("{%% %s %s %%}M%d", kw, cond, j+1))
			}
			if hasElse {
				sb.WriteString("{% else %}ME")
			}
			sb.WriteString("{% endif %}")
			src := sb.String()
			want := ""
			var wantLog []int
			switch {
			case sel >= 0:
				want = "M" + strconv.Itoa(sel+1)
				for j := 0; j <= sel; j++ {
					wantLog = append(wantLog, j+1)
				}
			default:
				if hasElse {
					want = "ME"
				}
				for j := 0; j < b; j++ {
					wantLog = append(wantLog, j+1)
				}
			}
			c10.log = c10.log[:0]
			r.Eval()
			r.Transition()
			r.Trace()
			o := Render(c10.eng, src, c10Bind())
			desc := func() any {
				return map[string]any{"template": src, "bindings": `n=nil f=false t=true z=0 e="" l=[] m={} x="x" h=1.5 ns=[]string(nil) nm=map(nil)`}
			}
			r.State(fmt.Sprintf("if:b=%d,sel=%d", b, sel))
			r.Class(fmt.Sprintf("if/b%d/sel%d/else%v", b, sel, hasElse))
			if o.Panic != nil || o.Err != nil || o.Out != want {
				r.Violation("wrong-branch:if", desc(), want, o.String())
			} else if fmt.Sprint(c10.log) != fmt.Sprint(wantLog) {
				r.Violation("evaluation-order:if", desc(), "conditions evaluated: "+fmt.Sprint(wantLog), fmt.Sprint(c10.log))
			}
			if r.WantSample() {
				r.Sample(map[string]any{"case": desc(), "observed": o.String(), "conditions_evaluated": fmt.Sprint(c10.log)})
			}
		}})
	}
	// --- an else is a branch like the others - one whose condition always holds: wherever it stands (also BEFORE
	// an elsif, or twice), the first branch that holds in source order is rendered and nothing after it is evaluated
	truthy3 := []truthVal{c10T[0], c10T[1], c10T[3], c10T[7]} // nil, false, 0, "x"
	for _, kw := range []string{"if", "unless"} {
		kw := kw
		for nb := 1; nb <= 3; nb++ {
			nb := nb
			// clause kinds after the opening condition: each position is an elsif (with one of 4 values) or an else
			opts := len(truthy3) + 1
			cnt := int64(len(truthy3))
			for j := 0; j < nb; j++ {
				cnt *= int64(opts)
			}
			fams = append(fams, explore.Family{Name: fmt.Sprintf("%s-with-else-anywhere-%d-clauses", kw, nb), Count: cnt, Run: func(i int64, r *explore.Rec) {
				rx := radix{i}
				first := truthy3[rx.next(len(truthy3))]
				type clause struct {
					isElse bool
					c      truthVal
				}
				cl := make([]clause, nb)
				nElse := 0
				for j := range cl {
					k := rx.next(opts)
					if k == len(truthy3) {
						cl[j].isElse = true
						nElse++
					} else {
						cl[j].c = truthy3[k]
					}
				}
				if nElse == 0 || (nElse == 1 && cl[nb-1].isElse) {
					return // the ordinary shapes are the other families' business
				}
				if kw == "unless" && nElse != nb {
					return // unless takes no elsif in this grammar: only several else clauses
				}
				var sb strings.Builder
				sb.WriteString(fmt.Sprintf("{%% %s %s | probe: 0 %%}M0", kw, first.name))
				firstHolds := first.t
				if kw == "unless" {
					firstHolds = !first.t
				}
				sel, want := -1, ""
				wantLog := []int{0}
				if firstHolds {
					sel, want = 0, "M0"
				}
				for j, c := range cl {
					if c.isElse {
						sb.WriteString(fmt.Sprintf("{%% else %%}M%d", j+1))
						if sel < 0 {
							sel, want = j+1, "M"+strconv.Itoa(j+1)
						}
						continue
					}
					cond := fmt.Sprintf("%s | probe: %d", c.c.name, j+1)
					if sel >= 0 {
						cond = c.c.name + " | fail" // must not be evaluated
					} else {
						wantLog = append(wantLog, j+1)
						if c.c.t {
							sel, want = j+1, "M"+strconv.Itoa(j+1)
						}
					}
					sb.WriteString(fmt.Sprintf("{%% elsif %s %%}M%d", cond, j+1))
				}
				sb.WriteString("{% end" + kw + " %}")
				src := sb.String()
				c10.log = c10.log[:0]
				r.Eval()
				r.Transition()
				r.Trace()
				o := Render(c10.eng, src, c10Bind())
				desc := map[string]any{"template": src}
				r.Class(fmt.Sprintf("else-anywhere/%s/sel%d", kw, sel))
				if o.Panic != nil || o.Err != nil || o.Out != want {
					r.Violation("wrong-branch:else-before-another-clause", desc, want, o.String())
				} else if fmt.Sprint(c10.log) != fmt.Sprint(wantLog) {
					r.Violation("evaluation-order:else-before-another-clause", desc, "conditions evaluated: "+fmt.Sprint(wantLog), fmt.Sprint(c10.log))
				}
			}})
		}
	}

	// --- scaled: long chains (7..60 branches); the first truthy condition at every position, or none
	for _, b := range []int{7, 8, 9, 15, 16, 17, 31, 32, 33, 60} {
		b := b
		fams = append(fams, explore.Family{Name: fmt.Sprintf("if-chain-%d", b), Count: int64((b + 1) * 2 * 2), Run: func(i int64, r *explore.Rec) {
			rx := radix{i}
			hasElse, kindCase, first := rx.next(2) == 1, rx.next(2) == 1, rx.next(b+1) // first == b: none is truthy
			var sb strings.Builder
			var wantLog []int
			if kindCase {
				sb.WriteString("{% case 1000 %}")
				for j := 0; j < b; j++ {
					v := j
					if j == first {
						v = 1000
					}
					sb.WriteString(fmt.Sprintf("{%% when %d %%}M%d", v, j+1))
				}
			} else {
				for j := 0; j < b; j++ {
					kw, c := "elsif", "n"
					if j == 0 {
						kw = "if"
					}
					if j == first {
						c = "z"
					} else if j > first {
						c = "t | fail"
					} else if j%2 == 1 {
						c = "f"
					}
					if j <= first {
						c = fmt.Sprintf("%s | probe: %d", c, j+1)
						wantLog = append(wantLog, j+1)
					}
					sb.WriteString(fmt.Sprintf("{%% %s %s %%}M%d", kw, c, j+1))
				}
			}
			if hasElse {
				sb.WriteString("{% else %}ME")
			}
			if kindCase {
				sb.WriteString("{% endcase %}")
			} else {
				sb.WriteString("{% endif %}")
			}
			src := sb.String()
			want := ""
			if first < b {
				want = "M" + strconv.Itoa(first+1)
			} else if hasElse {
				want = "ME"
			}
			c10.log = c10.log[:0]
			r.Eval()
			r.Transition()
			r.Trace()
			o := Render(c10.eng, src, c10Bind())
			r.Class(fmt.Sprintf("chain%d/%v", b, kindCase))
			r.State(fmt.Sprintf("chain:b=%d", b))
			if o.Panic != nil || o.Err != nil || o.Out != want {
				r.Violation("wrong-branch:long-chain", map[string]any{"template": trunc80(src), "branches": b, "first_truthy": first + 1}, want, o.String())
			} else if !kindCase && fmt.Sprint(c10.log) != fmt.Sprint(wantLog) {
				r.Violation("evaluation-order:long-chain", map[string]any{"template": trunc80(src), "branches": b, "first_truthy": first + 1}, fmt.Sprint(wantLog), fmt.Sprint(c10.log))
			}
		}})
	}
	// --- unless (+else), with probes
	fams = append(fams, explore.Family{Name: "unless", Count: int64(T * 2), Run: func(i int64, r *explore.Rec) {
		c, hasElse := c10T[int(i)%T], int(i)/T == 1
		src := "{% unless " + c.name + " | probe: 1 %}A"
		if hasElse {
			src += "{% else %}B"
		}
		src += "{% endunless %}"
		want := ""
		if !c.t {
			want = "A"
		} else if hasElse {
			want = "B"
		}
		c10.log = c10.log[:0]
		r.Eval()
		r.Transition()
		r.Trace()
		o := Render(c10.eng, src, c10Bind())
		r.Class("unless/" + want)
		r.State("unless")
		if o.Panic != nil || o.Err != nil || o.Out != want || len(c10.log) != 1 {
			r.Violation("wrong-branch:unless", map[string]any{"template": src}, want, o.String())
		}
	}})
	// --- a condition built with and/or whose left operand already decides it: the condition has that truth value
	// (C09: and/or look only at whether their operands are nil/false), so the branch it selects is rendered -
	// whatever evaluating the right operand would have done (fail, divide by zero, be counted)
	guardShapes := []struct {
		name, open, mid, end string
		negate               bool
	}{
		{"if", "{% if COND %}A", "{% else %}B", "{% endif %}", false},
		{"unless", "{% unless COND %}B", "{% else %}A", "{% endunless %}", false},
		{"elsif", "{% if f %}X{% elsif COND %}A", "{% else %}B", "{% endif %}", false},
		{"in-loop", "{% for i in (1..2) %}{% if COND %}A", "{% else %}B", "{% endif %}{% endfor %}", false},
	}
	guardRights := []string{"(x | fail)", "(x | fail) == 1", "(h | divided_by: 0) > 1", "(1..n) contains 2", "(x | probe: 9)", "(x | probe: 9) == 'x'"}
	fams = append(fams, explore.Family{Name: "connective-decided-by-its-left-operand", Count: int64(len(guardShapes) * 2 * T * len(guardRights) * 2), Run: func(i int64, r *explore.Rec) {
		rx := radix{i}
		sh, isAnd, l, right, cmpLeft := guardShapes[rx.next(len(guardShapes))], rx.next(2) == 1, c10T[rx.next(T)], guardRights[rx.next(len(guardRights))], rx.next(2) == 1
		if l.t == isAnd {
			return // the left operand does not decide: the right one is needed
		}
		left := l.name
		if cmpLeft { // the left operand as a comparison with the same truth value
			if l.t {
				left = "z == 0"
			} else {
				left = "z != 0"
			}
		}
		op := map[bool]string{true: "and", false: "or"}[isAnd]
		src := strings.Replace(sh.open+sh.mid+sh.end, "COND", left+" "+op+" "+right, 1)
		want := map[bool]string{true: "A", false: "B"}[l.t]
		if sh.name == "in-loop" {
			want += want
		}
		c10.log = c10.log[:0]
		r.Eval()
		r.Transition()
		r.Trace()
		o := Render(c10.eng, src, c10Bind())
		r.Class("guard/" + sh.name + "/" + op)
		r.State("guard:" + sh.name)
		if o.Panic != nil || o.Err != nil || o.Out != want {
			r.Violation("wrong-branch:left-operand-decides:"+op, map[string]any{"template": src}, want, o.String())
		} else if len(c10.log) != 0 {
			r.Violation("evaluation-order:left-operand-decides:"+op, map[string]any{"template": src}, "right operand not evaluated", fmt.Sprint(c10.log))
		}
	}})
	// --- if/unless duality for every condition expression of the C09 pair space
	U := len(c10.u)
	if U == 0 {
		c10.u = c09Universe()
		U = len(c10.u)
	}
	fams = append(fams, explore.Family{Name: "if-unless-duality", Count: int64(U * U * len(relOps)), Run: func(i int64, r *explore.Rec) {
		rx := radix{i}
		oi, bi, ai := rx.next(len(relOps)), rx.next(U), rx.next(U)
		A, B, op := c10.u[ai], c10.u[bi], relOps[oi]
		c := "a " + op + " b"
		s1 := "{% if " + c + " %}A{% else %}B{% endif %}"
		s2 := "{% unless " + c + " %}B{% else %}A{% endunless %}"
		r.Eval()
		r.Eval()
		r.Transition()
		o1 := Render(c10.eng, s1, map[string]any{"a": A.Build(), "b": B.Build()})
		o2 := Render(c10.eng, s2, map[string]any{"a": A.Build(), "b": B.Build()})
		r.Class("duality/" + op + "/" + o1.Out)
		if o1.Sig() != strings.ReplaceAll(o2.Sig(), "unless", "if") && (o1.Out != o2.Out || o1.Err != nil || o2.Err != nil || o1.Panic != nil) {
			r.Violation("duality", map[string]any{"if": s1, "unless": s2, "a": A.Name, "b": B.Name}, "identical renderings", o1.String()+" vs "+o2.String())
		}
	}})
	// duality for plain values
	fams = append(fams, explore.Family{Name: "if-unless-duality-values", Count: int64(U), Run: func(i int64, r *explore.Rec) {
		A := c10.u[i]
		r.Eval()
		r.Eval()
		r.Transition()
		o1 := Render(c10.eng, "{% if a %}A{% else %}B{% endif %}", map[string]any{"a": A.Build()})
		o2 := Render(c10.eng, "{% unless a %}B{% else %}A{% endunless %}", map[string]any{"a": A.Build()})
		want := "B"
		if ref.Truthy(A.L) {
			want = "A"
		}
		r.Class("truthiness/" + ref.Kind(A.L) + "/" + want)
		if o1.Out != want || o2.Out != want || o1.Err != nil || o2.Err != nil {
			r.Violation("truthiness:"+ref.Kind(A.L), map[string]any{"a": A.Name}, want, o1.String()+" / "+o2.String())
		}
	}})
	// --- case/when: subject and values from U2; selection by the implementation's own ==
	S := len(c10.u2)
	if S == 0 {
		c10.u2 = c10CaseUniverse(c10.u)
		S = len(c10.u2)
	}
	// shapes: k when-clauses, clause j lists 1 or 2 values
	type shape struct{ sizes []int }
	var shapes []shape
	maxW := 2
	if tier == "thorough" {
		maxW = 3
	}
	for k := 1; k <= maxW; k++ {
		for mask := 0; mask < 1<<k; mask++ {
			sz := make([]int, k)
			for j := range sz {
				sz[j] = 1 + (mask>>j)&1
			}
			shapes = append(shapes, shape{sz})
		}
	}
	for si, sh := range shapes {
		sh := sh
		nvals := 0
		for _, s := range sh.sizes {
			nvals += s
		}
		if nvals > 3 && tier != "thorough" {
			continue
		}
		if nvals > 3 {
			continue // |U|^(values+1) x up to 5 renders each: 4 values would exceed the thorough budget
		}
		// the universe extended with other numeric kinds is used for shapes with <=2 values;
		// larger shapes use the reduced universe only (the cost is |U|^(values+1))
		uu := c10.u2
		if nvals > 2 {
			uu = nil
			for _, v := range c10.u2 {
				if v.Small {
					uu = append(uu, v)
				}
			}
		}
		S := len(uu)
		cnt := int64(S * 2 * 2)
		for j := 0; j < nvals; j++ {
			cnt *= int64(S)
		}
		fams = append(fams, explore.Family{Name: fmt.Sprintf("case-shape%d", si), Count: cnt, Run: func(i int64, r *explore.Rec) {
			rx := radix{i}
			hasElse, poison := rx.next(2) == 1, rx.next(2) == 1
			subj := uu[rx.next(S)]
			bind := map[string]any{"s": subj.Build()}
			var sb strings.Builder
			sb.WriteString("{% case s | probe: 0 %}")
			sel := -1
			k := 0
			var wantLog = []int{0}
			done := false
			type pend struct {
				text string
			}
			var clauses []string
			for j, sz := range sh.sizes {
				var names []string
				for q := 0; q < sz; q++ {
					v := uu[rx.next(S)]
					k++
					name := "v" + strconv.Itoa(k)
					// the implementation's own ==
					eq := Render(c10.eng, "{% if s == w %}T{% else %}F{% endif %}", map[string]any{"s": subj.Build(), "w": v.Build()}).Out == "T"
					if !done {
						wantLog = append(wantLog, k)
					}
					// when-values cannot carry filters: a logging Drop is the evaluation probe,
					// and the poison is a Drop whose ToLiquid panics the test's way (recorded, not raised)
					expr := name
					kk := k
					bind[name] = logDrop{v: v.Build(), f: func() { c10.log = append(c10.log, kk) }}
					if done && poison {
						bind[name] = logDrop{v: v.Build(), f: func() { c10.log = append(c10.log, -kk) }}
					}
					if eq && !done {
						sel = j
						done = true
					}
					names = append(names, expr)
				}
				clauses = append(clauses, fmt.Sprintf("{%% when %s %%}W%d", strings.Join(names, ", "), j+1))
			}
			sb.WriteString(strings.Join(clauses, ""))
			if hasElse {
				sb.WriteString("{% else %}WE")
			}
			sb.WriteString("{% endcase %}")
			src := sb.String()
			want := ""
			if sel >= 0 {
				want = "W" + strconv.Itoa(sel+1)
			} else if hasElse {
				want = "WE"
			}
			c10.log = c10.log[:0]
			r.Eval()
			r.Transition()
			r.Trace()
			o := Render(c10.eng, src, bind)
			desc := func() any { return map[string]any{"template": src, "subject": subj.Name} }
			r.State(fmt.Sprintf("case:sel=%d", sel))
			r.Class(fmt.Sprintf("case/%d/sel%d", len(sh.sizes), sel))
			if o.Panic != nil || o.Err != nil || o.Out != want {
				r.Violation("wrong-branch:case", desc(), want, o.String())
			} else if got := dedupInts(c10.log); fmt.Sprint(got) != fmt.Sprint(wantLog) && !sameUpToWhenValues(got, wantLog, sel, sh.sizes) {
				r.Violation("evaluation-order:case", desc(), "evaluated: "+fmt.Sprint(wantLog), fmt.Sprint(c10.log))
			}
			if r.WantSample() {
				r.Sample(map[string]any{"case": desc(), "observed": o.String()})
			}
		}})
	}
	// --- when-values and conditions spelled as string LITERALS that contain the words and punctuation of the
	// syntax itself (or, and, a comma, a colon, when, quotes of the other kind): the literal is one value
	lits := []string{"yes or no", "yes, no", "a or b, c", " or ", "or", "and", "a and b", "x contains y", "when", "a, b", "1, 2", "a:b", "it's", "else", "endcase", "a | upcase", "nil", "true", "", "yes", "no"}
	fams = append(fams, explore.Family{Name: "literals-with-syntax-words", Count: int64(len(lits) * len(lits)), Run: func(i int64, r *explore.Rec) {
		subj, lit := lits[int(i)/len(lits)], lits[int(i)%len(lits)]
		q := `"` + lit + `"`
		if strings.Contains(lit, `"`) {
			q = "'" + lit + "'"
		}
		eq := subj == lit
		pick := func(t, f string) string {
			if eq {
				return t
			}
			return f
		}
		src := "{% case s %}{% when " + q + " %}W{% else %}E{% endcase %}|{% case s %}{% when 'zzz', " + q + " %}W{% else %}E{% endcase %}|" +
			"{% if s == " + q + " %}T{% else %}F{% endif %}|{% unless s == " + q + " %}U{% else %}V{% endunless %}|{% if s != " + q + " %}N{% elsif s == " + q + " %}Q{% endif %}|" +
			"{% case m[" + q + "] %}{% when 1 %}K{% else %}L{% endcase %}"
		want := pick("W|W|T|V|Q|K", "E|E|F|U|N|L")
		r.Eval()
		r.Transition()
		r.Trace()
		o := Render(c10.eng, src, map[string]any{"s": subj, "m": map[string]any{subj: 1}})
		r.Class("syntax-word-literals/" + pick("equal", "different"))
		if o.Panic != nil || o.Err != nil || o.Out != want {
			r.Violation("wrong-branch:literal-with-syntax-words", map[string]any{"template": src, "s": subj}, want, o.String())
		}
	}})

	// --- switch-like chains: every condition compares the SAME subject with a literal, literals may repeat; the
	// first comparison that holds wins (3..5 comparisons over {1, 2, 'a', "1"}, with and without else, 6 subjects)
	swLits := []string{"1", "2", "'a'", "\"1\"", "1.0"}
	swSubjects := []struct {
		name string
		v    any
		eq   map[string]bool
	}{{"1", 1, map[string]bool{"1": true, "1.0": true}}, {"2", 2, map[string]bool{"2": true}}, {"'a'", "a", map[string]bool{"'a'": true}}, {"\"1\"", "1", map[string]bool{"\"1\"": true}},
		{"3", 3, nil}, {"int64(1)", int64(1), map[string]bool{"1": true, "1.0": true}}, {"1.0", 1.0, map[string]bool{"1": true, "1.0": true}}, {"nil", nil, nil}}
	for nc := 3; nc <= 5; nc++ {
		nc := nc
		cnt := int64(len(swSubjects) * 2)
		for j := 0; j < nc; j++ {
			cnt *= int64(len(swLits))
		}
		fams = append(fams, explore.Family{Name: fmt.Sprintf("switch-like-chain-%d", nc), Count: cnt, Run: func(i int64, r *explore.Rec) {
			rx := radix{i}
			hasElse, sj := rx.next(2) == 1, swSubjects[rx.next(len(swSubjects))]
			var sb strings.Builder
			want := ""
			for j := 0; j < nc; j++ {
				lit := swLits[rx.next(len(swLits))]
				kw := "elsif"
				if j == 0 {
					kw = "if"
				}
				sb.WriteString(fmt.Sprintf("{%% %s x == %s %%}B%d", kw, lit, j))
				if want == "" && sj.eq[lit] {
					want = fmt.Sprintf("B%d", j)
				}
			}
			if hasElse {
				sb.WriteString("{% else %}BE")
				if want == "" {
					want = "BE"
				}
			}
			sb.WriteString("{% endif %}")
			src := sb.String()
			r.Eval()
			r.Transition()
			r.Trace()
			o := Render(c10.eng, src, map[string]any{"x": sj.v})
			r.Class("switch-like/" + want)
			if o.Panic != nil || o.Err != nil || o.Out != want {
				r.Violation("wrong-branch:switch-like-chain", map[string]any{"template": src, "x": sj.name}, want, o.String())
			}
		}})
	}

	// --- when-values that are not scalars: a range literal, a list or a map never EQUALS a number or a string inside
	// it (case compares by ==, it does not test membership)
	nsWhens := []string{"(1..5)", "(3..3)", "(0..0)", "(a..b)", "l", "m", "l.first", "(1..5), 7", "7, (1..5)"}
	nsSubjects := []struct {
		src  string
		hits map[string]bool
	}{{"3", map[string]bool{"l.first": true}}, {"0", nil}, {"1", nil}, {"5", nil}, {"'3'", nil}, {"7", map[string]bool{"(1..5), 7": true, "7, (1..5)": true}}, {"'k'", nil}, {"n3", map[string]bool{"l.first": true}}, {"2.0", nil}}
	fams = append(fams, explore.Family{Name: "case-when-non-scalar-values", Count: int64(len(nsWhens) * len(nsSubjects)), Run: func(i int64, r *explore.Rec) {
		w, sj := nsWhens[int(i)%len(nsWhens)], nsSubjects[int(i)/len(nsWhens)]
		src := "{% case " + sj.src + " %}{% when " + w + " %}W{% else %}E{% endcase %}|{% case " + sj.src + " %}{% when 'zz' %}Z{% when " + w + " %}W{% endcase %}"
		want := "E|"
		if sj.hits[w] {
			want = "W|W"
		}
		r.Eval()
		r.Transition()
		r.Trace()
		o := Render(c10.eng, src, map[string]any{"a": 1, "b": 5, "l": []any{3, 4, 5, 7}, "m": map[string]any{"k": 3, "3": 3}, "n3": 3})
		r.Class("case-non-scalar-when")
		if o.Panic != nil || o.Err != nil || o.Out != want {
			r.Violation("wrong-branch:case:non-scalar-when-value", map[string]any{"template": src}, want, o.String())
		}
	}})

	// --- deep nesting: depth 1..40, the first failing condition at every level (or none), four shapes per level
	// (if/else, unless/else, if/elsif/else with the elsif taken, case/when/else); exactly one path is rendered
	const deepMax = 40
	type deepJob struct{ d, k, shape int }
	var deepJobs []deepJob
	for d := 1; d <= deepMax; d++ {
		for k := 0; k <= d; k++ {
			for sh := 0; sh < 5; sh++ {
				deepJobs = append(deepJobs, deepJob{d, k, sh})
			}
		}
	}
	fams = append(fams, explore.Family{Name: "nested-depth-1..40", Count: int64(len(deepJobs)), Run: func(i int64, r *explore.Rec) {
		jb := deepJobs[i]
		var open, close []string
		for l := 0; l < jb.d; l++ {
			sh := jb.shape
			if sh == 4 {
				sh = l % 4 // mixed
			}
			L := strconv.Itoa(l)
			var o, c string
			switch sh {
			case 0:
				o, c = "{% if c"+L+" %}a"+L, "z"+L+"{% else %}e"+L+"{% endif %}"
			case 1:
				o, c = "{% unless n"+L+" %}a"+L, "z"+L+"{% else %}e"+L+"{% endunless %}"
			case 2:
				o, c = "{% if false %}x{% elsif c"+L+" %}a"+L, "z"+L+"{% elsif true %}e"+L+"{% else %}y{% endif %}"
			default:
				o, c = "{% case s"+L+" %}{% when 'q' %}x{% when 'y' %}a"+L, "z"+L+"{% else %}e"+L+"{% endcase %}"
			}
			open = append(open, o)
			close = append([]string{c}, close...)
		}
		// reference: level l renders a<l> inner z<l> when its condition holds, e<l> otherwise; level k is the
		// first (and only) level whose condition does not hold (k = d: none)
		var ref func(l int) string
		ref = func(l int) string {
			switch {
			case l == jb.d:
				return "|"
			case l == jb.k:
				return "e" + strconv.Itoa(l)
			}
			return "a" + strconv.Itoa(l) + ref(l+1) + "z" + strconv.Itoa(l)
		}
		want := ref(0)
		bind := map[string]any{}
		for l := 0; l < jb.d; l++ {
			L := strconv.Itoa(l)
			bind["c"+L], bind["n"+L], bind["s"+L] = l != jb.k, l == jb.k, map[bool]string{true: "y", false: "n"}[l != jb.k]
		}
		src := strings.Join(open, "") + "|" + strings.Join(close, "")
		r.Eval()
		r.Transition()
		r.Trace()
		o := Render(c10.eng, src, bind)
		r.Class(fmt.Sprintf("deep/shape%d", jb.shape))
		if o.Panic != nil || o.Err != nil || o.Out != want {
			r.Violation("wrong-branch:nested-deep", map[string]any{"depth": jb.d, "first_false_level": jb.k, "shape": jb.shape, "template": trunc80(src)}, want, trunc80(o.String()))
		}
	}})

	// --- nesting: conditionals inside conditionals and inside a loop whose variable is the condition
	fams = append(fams, explore.Family{Name: "nested-2-levels", Count: int64(T * T * T), Run: func(i int64, r *explore.Rec) {
		rx := radix{i}
		o, p, q := c10T[rx.next(T)], c10T[rx.next(T)], c10T[rx.next(T)]
		src := fmt.Sprintf("{%% if %s %%}[{%% if %s %%}A{%% elsif %s %%}B{%% else %%}C{%% endif %%}]{%% else %%}[{%% unless %s %%}D{%% else %%}E{%% endunless %%}{%% case %s %%}{%% when %s %%}F{%% else %%}G{%% endcase %%}]{%% endif %%}",
			o.name, p.name, q.name, p.name, q.name, q.name)
		var want string
		if o.t {
			switch {
			case p.t:
				want = "[A]"
			case q.t:
				want = "[B]"
			default:
				want = "[C]"
			}
		} else {
			want = "["
			if !p.t {
				want += "D"
			} else {
				want += "E"
			}
			want += "F]" // q == q by reflexivity (nil and false)
		}
		r.Eval()
		r.Transition()
		r.Trace()
		out := Render(c10.eng, src, c10Bind())
		r.Class("nested/" + want)
		r.State("nested")
		if out.Panic != nil || out.Err != nil || out.Out != want {
			r.Violation("wrong-branch:nested", map[string]any{"template": src}, want, out.String())
		}
	}})
	fams = append(fams, explore.Family{Name: "in-loop", Count: int64(T * T), Run: func(i int64, r *explore.Rec) {
		a, b := c10T[int(i)%T], c10T[int(i)/T]
		src := "{% for c in cs %}{% if c %}A{% elsif d %}B{% else %}C{% endif %}{% unless c %}U{% endunless %}{% endfor %}"
		want := ""
		for _, c := range []truthVal{a, b} {
			switch {
			case c.t:
				want += "A"
			case b.t:
				want += "BU"
			default:
				want += "CU"
			}
		}
		r.Eval()
		r.Transition()
		r.Trace()
		out := Render(c10.eng, src, map[string]any{"cs": []any{a.v(), b.v()}, "d": b.v()})
		r.Class("in-loop/" + want)
		if out.Panic != nil || out.Err != nil || out.Out != want {
			r.Violation("wrong-branch:in-loop", map[string]any{"template": src, "cs": a.name + "," + b.name, "d": b.name}, want, out.String())
		}
	}})
	return fams
}

type logDrop struct {
	v any
	f func()
}

func (d logDrop) ToLiquid() any { d.f(); return d.v }

func dedupInts(in []int) []int {
	seen := map[int]bool{}
	var out []int
	for _, x := range in {
		if !seen[x] {
			seen[x] = true
			out = append(out, x)
		}
	}
	return out
}

// sameUpToWhenValues: within the selected when clause the statement does not say
// whether values after the matching one are evaluated; accept both.
func sameUpToWhenValues(got, want []int, sel int, sizes []int) bool {
	if sel < 0 || len(got) < len(want) {
		return false
	}
	for i := range want {
		if got[i] != want[i] {
			return false
		}
	}
	// extra probes must all belong to the selected clause
	first := 1
	for j := 0; j < sel; j++ {
		first += sizes[j]
	}
	last := first + sizes[sel] - 1
	for _, k := range got[len(want):] {
		if k < first || k > last {
			return false
		}
	}
	return true
}

func init() {
	explore.Register(&explore.Prop{
		ID:    "C10",
		Level: "model_checking",
		Rule: "if/elsif/else chains with 1..4 (quick) / 1..6 (thorough) branches over every vector of the 11-value truthiness universe {nil,false,true,0,\"\",[],{},\"x\",1.5,nil slice,nil map} (4 values for 5-6 branches), with/without else, each condition wrapped in a logging probe filter, plus poison variants whose conditions after the selected branch fail when evaluated; long if and case chains of 7..60 branches with the first truthy condition at every position; unless; case with <=2 (quick) / <=3 when-clauses of 1-2 values over U2; if/unless duality over every (pair, operator) of the C09 universe; 2-level nestings and conditionals inside loops; " +
			"state = (construct, selected branch); transition = one program rendered; trace = program validated against the reference branch selection",
		Assumptions: []string{
			"case selects by the implementation's own == (validated against the reference by C09)",
			"whether when-values after the matching one inside the selected clause are evaluated is unspecified",
		},
		Setup:    c10Setup,
		Families: c10Families,
		Bound: func(tier string) string {
			if tier == "thorough" {
				return "if chains <=6 branches; case <=3 clauses (<=3 values); duality over the whole pair universe"
			}
			return "if chains <=4 branches; case <=2 clauses (<=3 values); duality over the whole pair universe"
		},
	})
}
