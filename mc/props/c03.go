package props

import (
	"bytes"
	"errors"
	"fmt"
	"strings"

	yaml "gopkg.in/yaml.v2"

	"github.com/osteele/liquid"
	"github.com/osteele/liquid/values"
	"verifmc/explore"
	"verifmc/univ"
)

// C03 — rendering never modifies bindings or the template; renders are independent.

const (
	c03IncName    = "c03_included.liquid"
	c03SubIncName = "partials/nested/c03_sub.liquid"
	c03NeedName   = "c03_need.liquid"
)

var c03Templates = []string{
	"{% assign x = 'changed' %}{{ x }}{% assign a = 'gone' %}{{ a }}",
	"{% capture x %}cap{{ n }}{% endcapture %}{{ x }}",
	"{% for x in a %}{{ x }}{{ forloop.index }}{% endfor %}{{ x }}{{ forloop }}",
	"{% for i in a %}{% cycle 'p', 'q' %}{% cycle 'g': '1', '2', '3' %}{% endfor %}",
	"{% for i in nested %}{% for j in i %}{% if j == 1 %}{% break %}{% endif %}{{ j }}{% endfor %};{% endfor %}",
	"{{ a | sort | join }}",
	"{{ lm | sort: 'w' | map: 'w' | join }}",
	"{{ b | sort_natural | join }}",
	"{{ a | reverse | join }}|{{ dup | uniq | join }}|{{ dup | compact | join }}",
	"{{ a | concat: b | join }}|{{ a2 | concat: a | join }}",
	"{{ lm | map: 'w' | join }}|{{ a | first }}{{ a | last }}{{ a | join: '-' }}{{ a2 | join }}",
	`{% include "` + c03IncName + `" %}`,
	"{% assign x = 'half' %}{% for i in a %}{{ i }}{% if forloop.index == 2 %}{{ i | failing }}{% endif %}{% endfor %}",
	"{% tablerow i in a cols: 2 %}{{ i }}{% endtablerow %}",
	"{% for i in a %}{% cycle 'p', 'q', 'r' %}{% cycle 'g': '1', '2' %}{% if forloop.index == 2 %}{{ i | failing }}{% endif %}{% endfor %}",
	"  lead {{ x -}} ",
	// renders that END in a trim marker (also by failing right after it) followed by renders that BEGIN with whitespace
	"{{ x -}}",
	" a {%- if x -%} b {%- endif -%}",
	"{{ x -}}{{ x | failing }} never",
	"\n\t{{ x }}",
	// variables a render creates must not be visible to the next one
	"{% assign leak = 'L' %}{% capture leak2 %}M{% endcapture %}{% for leak3 in a %}{% endfor %}",
	"<{{ leak }}{{ leak2 }}{{ leak3 }}|{{ forloop.index }}|{{ i }}{{ q }}{{ c }}{{ only }}>",
	// loops over a bound map and its nested values
	"{% for kv in m %}{{ kv[0] }}={{ kv[1] }};{% endfor %}|{% for kv in m %}{% for kv2 in m %}{{ kv2[0] }}{% endfor %}{% endfor %}|{{ m | size }}{{ m.k }}{{ m.k2 }}",
	// an include with a directory component, rendered twice by the same parsed template
	`[{% include "` + c03SubIncName + `" %}]`,
	// writing tags that sit only in clause bodies (else / when), the clause being taken
	"{% if nothing %}x{% else %}{% assign leak4 = 'E' %}{% capture leak5 %}c{% endcapture %}{% for leak6 in a %}{% endfor %}{% endif %}{{ leak4 }}{{ leak5 }}",
	"{% case x %}{% when 'never' %}n{% else %}{% assign x = 'changed' %}{% assign a = 'gone' %}{% endcase %}{{ x }}",
	// receivers of a named slice type (its underlying type is []any: no conversion is needed to read it)
	"{{ na | sort | join }}|{{ na | sort_natural | join }}|{{ na | reverse | first }}|{{ nl | sort: 'w' | size }}|{{ na | uniq | compact | concat: na | size }}|{{ na | join }}",
	// values with methods of their own that CHANGE them when called (a buffer or reader is drained by WriteTo/Read/Next): printing must only look
	"{{ buf }}|{{ rd }}|{{ hold.Body }}|{{ hold.R }}|{{ hold.Body | size }}|{{ buf | append: '' | size }}|{% for x in hold.L %}{{ x }}{% endfor %}|{{ buf | json }}",
	// the same cached file included from two LINES of one template; which of them runs (and fails) depends on the bindings
	"{% if n %}{% include \"" + c03NeedName + "\" %}{% endif %}\n\n{% include \"" + c03NeedName + "\" %}",
	// a render that fails (or breaks off) inside a loop AFTER its cycle advanced - only for some bindings (an element equal to 3) -
	// followed by a render of the same parsed template that runs through: the cycle starts over
	"{% for i in a %}{% cycle 'p', 'q', 'r' %}{% cycle 'g': '1', '2' %}{% if i == 3 %}{{ i | failing }}{% endif %}{% endfor %}",
	"{% for i in a %}{% capture c %}{% cycle 'u', 'v', 'w' %}{% if i == 1 %}{% break %}{% endif %}{% endcapture %}{{ c }}{% endfor %}|{% tablerow i in a cols: 2 %}{% cycle 'p', 'q', 'r' %}{% if i == 3 %}{{ i | failing }}{% endif %}{% endtablerow %}",
	// thorough
	"{{ ints | sort | join }}{{ strs | reverse | join }}{{ arr | sort | first }}{{ drop | sort | join }}{{ pst.A }}{{ st.C | sort | join }}",
	"{{ ms | sort | join }}{{ rng | reverse | join }}{% for kv in m %}{{ kv[0] }}{% endfor %}{{ m.j | sort | join }}",
	"{% assign q = a | sort %}{{ q | join }}{% assign a = q | reverse %}{{ a | join }}",
	"{{ nested | first | sort | join }}{{ nested[1] | reverse | join }}",
	"{{ a | slice: 0 }}{{ x | append: 'y' | upcase }}{{ x | split: '' | reverse | join }}",
	"{% for i in a2 %}{% assign a2 = 'z' %}{{ i }}{% endfor %}{{ a2 }}",
	"{{ a | sort | first }}{{ a | sort | last }}{{ a | size }}{{ dup | sort | compact | uniq | join }}",
	"{% for i in a limit: 2 %}{% cycle 'x', 'y', 'z' %}{% endfor %}{% for i in a reversed %}{% cycle 'x', 'y', 'z' %}{% endfor %}",
	"{{ undefined_thing | failing }}",
	"{% capture c %}{% for i in a %}{% continue %}{% endfor %}{% endcapture %}{% assign n = n | plus: 1 %}{{ n }}",
}

// binding environments; every call builds fresh values
func c03Envs(which int) map[string]any {
	withSpare := func(vals ...any) []any {
		full := make([]any, len(vals), len(vals)+4)
		copy(full, vals)
		spare := full[:cap(full)]
		for i := len(vals); i < len(spare); i++ {
			spare[i] = "SENTINEL"
		}
		return full
	}
	switch which {
	case 0:
		a := withSpare(3, 1, 2)
		return map[string]any{
			"a": a, "a2": a[1:3], "b": withSpare("b", "A", "a"), "dup": withSpare(1, 1, nil, 2), "x": "X", "n": 5,
			"m":      map[string]any{"k": 1, "j": withSpare(2, 1)},
			"lm":     withSpare(map[string]any{"w": 2}, map[string]any{"w": 1}, map[string]any{}),
			"nested": withSpare(withSpare(2, 1), withSpare(4, 3)),
			"na":     univ.NamedAnys(withSpare("b", "C", "a")), "nl": univ.NamedAnys(withSpare(map[string]any{"w": 2}, map[string]any{"w": 1})),
		}
	case 1:
		n := 7
		return map[string]any{
			"ints": append(make([]int, 0, 6), 3, 1, 2), "strs": []string{"b", "a"}, "arr": [3]int{3, 1, 2}, "drop": univ.Drop{V: withSpare(2, 1)},
			"st": univ.Plain{A: 1, B: "x", C: withSpare(9, 8)}, "pst": &univ.Plain{A: 2, C: withSpare(1)}, "pint": &n,
			"ms":  yaml.MapSlice{{Key: "k", Value: 2}, {Key: "j", Value: 1}},
			"buf": bytes.NewBufferString("buffered"), "rd": strings.NewReader("reader"),
			"hold": &c03Holder{Body: bytes.NewBufferString("body"), R: bytes.NewReader([]byte("bytes")), L: []any{bytes.NewBufferString("in-list")}},
			"rng":  values.NewRange(1, 3), "a": []int{2, 1}, "m": map[string]any{"k": 1, "j": []int{2, 1}}, "x": []byte("bytes"),
		}
	case 2:
		return map[string]any{"x": "only"}
	default:
		return map[string]any{
			"a": withSpare("z", "y"), "a2": withSpare(9), "b": withSpare(), "dup": withSpare(nil, nil), "x": 12, "n": "5",
			"m": map[string]any{}, "lm": withSpare(map[string]any{"w": "b"}, map[string]any{"w": "a"}), "nested": withSpare(withSpare(1), withSpare()),
		}
	}
}

type c03Holder struct {
	Body *bytes.Buffer
	R    *bytes.Reader
	L    []any
}

func c03Engine() *liquid.Engine {
	e := liquid.NewEngine()
	e.RegisterFilter("failing", func(v any) (any, error) { return nil, errors.New("failing filter") })
	if _, err := e.ParseTemplateAndCache([]byte("{% assign x = 'inc' %}{{ x }}{{ a | sort | join }}{% for i in a %}{% cycle '1', '2' %}{% endfor %}"), c03IncName, 1); err != nil {
		panic(explore.BaselineFailure{Msg: "harness: " + err.Error()})
	}
	e.RegisterFilter("need", func(v any) (any, error) {
		if v == nil {
			return nil, errors.New("a value is needed")
		}
		return v, nil
	})
	if _, err := e.ParseTemplateAndCache([]byte("<{{ n | need }}>"), c03NeedName, 1); err != nil {
		panic(explore.BaselineFailure{Msg: "harness: " + err.Error()})
	}
	if _, err := e.ParseTemplateAndCache([]byte("sub:{{ x }}{% assign x = 'in-sub' %}"), c03SubIncName, 1); err != nil {
		panic(explore.BaselineFailure{Msg: "harness: " + err.Error()})
	}
	return e
}

var c03 struct {
	nT, nB int
	solo   map[[2]int]string
}

func c03Solo(t, b int) string {
	k := [2]int{t, b}
	if s, ok := c03.solo[k]; ok {
		return s
	}
	o := Render(c03Engine(), c03Templates[t], c03Envs(b))
	s := o.Sig()
	c03.solo[k] = s
	return s
}

// c03World is one shared engine, parsed templates and binding environments.
type c03World struct {
	eng   *liquid.Engine
	tpls  map[int]*liquid.Template
	envs  []map[string]any
	snaps []string
	tsnap map[int]string
	esnap string
	// changed: a structural change of a render tree or of the engine configuration was observed
	changed bool
}

func c03NewWorld(nB int, ts []int) *c03World {
	w := &c03World{eng: c03Engine(), tpls: map[int]*liquid.Template{}, tsnap: map[int]string{}}
	for _, t := range ts {
		if _, ok := w.tpls[t]; ok {
			continue
		}
		tpl, err := w.eng.ParseString(c03Templates[t])
		if err != nil {
			panic(explore.BaselineFailure{Msg: "harness: " + err.Error()})
		}
		w.tpls[t] = tpl
		w.tsnap[t] = explore.SnapshotHash(tpl.GetRoot())
	}
	for b := 0; b < nB; b++ {
		e := c03Envs(b)
		w.envs = append(w.envs, e)
		w.snaps = append(w.snaps, explore.Snapshot(e))
	}
	w.esnap = explore.SnapshotHash(w.eng)
	return w
}

// step renders (t, b) on the world and checks the three invariants; it returns a description of the first breach.
func (w *c03World) step(r *explore.Rec, t, b int, hist string) bool {
	r.Eval()
	r.Transition()
	var o Outcome
	o.Panic = explore.Safe(func() {
		out, err := w.tpls[t].Render(w.envs[b])
		o.Out, o.Err = string(out), err
	})
	desc := func() any {
		return map[string]any{"history": hist, "failing_step": fmt.Sprintf("R(t%d,b%d)", t, b), "template": c03Templates[t]}
	}
	ok := true
	// (I2) equals the solo result
	if want := c03Solo(t, b); o.Sig() != want {
		r.Violation("I2:differs-from-solo:t"+fmt.Sprint(t), desc(), want, o.Sig())
		ok = false
	}
	// (I1) every binding environment is unchanged
	for i, e := range w.envs {
		if s := explore.Snapshot(e); s != w.snaps[i] {
			r.Violation(fmt.Sprintf("I1:bindings-modified:t%d", t), desc(), "environment b"+fmt.Sprint(i)+" unchanged: "+trunc80(firstDiff(w.snaps[i], s)), trunc80(firstDiff(s, w.snaps[i])))
			ok = false
			w.snaps[i] = s
		}
	}
	// (I3) structural view of the parsed templates and of the engine configuration. The statement
	// defines "never changes the parsed template" operationally (re-rendering gives identical output,
	// which I2 checks on every step), so a structural change alone - a correct memoisation, say - is
	// not a violation; it is counted and shows up as additional world states in the evidence.
	for tt, tpl := range w.tpls {
		if h := explore.SnapshotHash(tpl.GetRoot()); h != w.tsnap[tt] {
			r.Count("structural_changes_of_render_trees", 1)
			w.changed = true
			w.tsnap[tt] = h
		}
	}
	if h := explore.SnapshotHash(w.eng); h != w.esnap {
		r.Count("structural_changes_of_engine_configuration", 1)
		w.changed = true
		w.esnap = h
	}
	return ok
}

func firstDiff(a, b string) string {
	i := 0
	for i < len(a) && i < len(b) && a[i] == b[i] {
		i++
	}
	lo := i - 30
	if lo < 0 {
		lo = 0
	}
	hi := i + 50
	if hi > len(a) {
		hi = len(a)
	}
	return "…" + a[lo:hi] + "…"
}

func c03Families(tier string) []explore.Family {
	nT, nB, depth := 31, 3, 2
	if tier == "thorough" {
		nT, nB, depth = len(c03Templates), 4, 3
	}
	ops := nT * nB
	var fams []explore.Family
	for d := 1; d <= depth; d++ {
		d := d
		cnt := int64(1)
		for j := 0; j < d; j++ {
			cnt *= int64(ops)
		}
		fams = append(fams, explore.Family{Name: fmt.Sprintf("histories-len%d", d), Count: cnt, Run: func(i int64, r *explore.Rec) {
			rx := radix{i}
			steps := make([][2]int, d)
			var ts []int
			var names []string
			for j := d - 1; j >= 0; j-- {
				op := rx.next(ops)
				steps[j] = [2]int{op / nB, op % nB}
			}
			for _, s := range steps {
				ts = append(ts, s[0])
				names = append(names, fmt.Sprintf("R(t%d,b%d)", s[0], s[1]))
			}
			hist := strings.Join(names, " ; ")
			w := c03NewWorld(nB, ts)
			r.Trace()
			for _, s := range steps {
				if !w.step(r, s[0], s[1], hist) {
					break
				}
			}
			// canonical world state after the history: exactly one on a correct tree
			var sb strings.Builder
			for _, s := range w.snaps {
				sb.WriteString(s)
			}
			r.State(explore.SnapshotHash(sb.String()) + fmt.Sprintf("/structural-change=%v", w.changed))
			r.Class("len" + fmt.Sprint(d) + "/" + c03Solo(steps[d-1][0], steps[d-1][1])[:3])
			if r.WantSample() {
				r.Sample(map[string]any{"history": hist, "last_result": trunc80(c03Solo(steps[d-1][0], steps[d-1][1]))})
			}
		}})
	}
	// the caller may UPDATE a bound value in place between two renders (same map object, same number of entries; same
	// slice, same length): the second render shows the new contents - it equals a render of a freshly parsed
	// template against a freshly built, equally updated environment. Nothing about an earlier render may be
	// remembered by the parsed template under the identity of a binding.
	mutate := func(b map[string]any) {
		if m, ok := b["m"].(map[string]any); ok {
			if _, has := m["k"]; has {
				delete(m, "k")
				m["k2"] = "renamed"
			}
			if _, has := m["j"]; has {
				m["j"] = []any{"new", "j"}
			}
		}
		if a, ok := b["a"].([]any); ok && len(a) > 0 {
			a[0] = "A0'"
		}
		if lm, ok := b["lm"].([]any); ok && len(lm) > 0 {
			if e, ok := lm[0].(map[string]any); ok {
				e["w"] = 9
			}
		}
		if _, ok := b["x"].(string); ok {
			b["x"] = "X'"
		}
		if ms, ok := b["ms"].(yaml.MapSlice); ok && len(ms) > 0 {
			ms[0].Value = "ms'"
		}
		if st, ok := b["pst"].(*univ.Plain); ok {
			st.A = 42
		}
		if ints, ok := b["ints"].([]int); ok && len(ints) > 0 {
			ints[0] = 99
		}
	}
	fams = append(fams, explore.Family{Name: "bindings-updated-in-place-between-renders", Count: int64(nT * nB), Run: func(i int64, r *explore.Rec) {
		t, bi := int(i)/nB, int(i)%nB
		eng := c03Engine()
		tpl, err := eng.ParseString(c03Templates[t])
		if err != nil {
			panic(explore.BaselineFailure{Msg: "harness: " + err.Error()})
		}
		b := c03Envs(bi)
		r.Eval()
		r.Eval()
		r.Eval()
		r.Transition()
		r.Trace()
		render := func(tp *liquid.Template, env map[string]any) string {
			var o Outcome
			o.Panic = explore.Safe(func() {
				out, e := tp.Render(env)
				o.Out, o.Err = string(out), e
			})
			return o.Sig()
		}
		first := render(tpl, b)
		mutate(b)
		second := render(tpl, b)
		fresh := c03Envs(bi)
		mutate(fresh)
		tpl2, _ := c03Engine().ParseString(c03Templates[t])
		want := render(tpl2, fresh)
		r.Class("in-place-update/" + second[:3])
		if second != want {
			r.Violation(fmt.Sprintf("I2:stale-after-in-place-update:t%d", t), map[string]any{"template": c03Templates[t], "environment": bi, "first_render": trunc80(first)}, trunc80(want), trunc80(second))
		}
	}})

	// the []byte a render returned belongs to the caller: later renders (same template, other bindings; other
	// templates) must not change it. Output sizes straddle typical buffer thresholds.
	sizes := []int{0, 1, 63, 64, 65, 4095, 4096, 4097, 65535, 65536, 65537, 200000, 1 << 20}
	fams = append(fams, explore.Family{Name: "returned-bytes-stay-intact", Count: int64(len(sizes) * len(sizes)), Run: func(i int64, r *explore.Rec) {
		n1, n2 := sizes[int(i)/len(sizes)], sizes[int(i)%len(sizes)]
		eng := c03Engine()
		tpl, err := eng.ParseString("{{ big }}{% for i in l %}{{ i }}{% endfor %}")
		if err != nil {
			panic(explore.BaselineFailure{Msg: err.Error()})
		}
		other, _ := eng.ParseString("other {{ big | upcase }}")
		r.Eval()
		r.Transition()
		b1 := map[string]any{"big": strings.Repeat("a", n1), "l": []any{1, 2}}
		b2 := map[string]any{"big": strings.Repeat("b", n2), "l": []any{3}}
		out1, e1 := tpl.Render(b1)
		if e1 != nil {
			r.Violation("fails:big-output", map[string]any{"size": n1}, "output", e1.Error())
			return
		}
		want1 := strings.Repeat("a", n1) + "12"
		keep := string(out1) // a copy taken at once
		out2, _ := tpl.Render(b2)
		out3, _ := other.Render(b2)
		s4, _ := tpl.RenderString(b2)
		desc := func() any { return map[string]any{"first_output_bytes": n1 + 2, "second_output_bytes": n2 + 1} }
		if keep != want1 {
			r.Violation("wrong:big-output", desc(), trunc80(want1), trunc80(keep))
		}
		if string(out1) != want1 {
			r.Violation("I2:returned-bytes-changed-by-later-render", desc(), "the first result still reads "+trunc80(want1), trunc80(string(out1)))
		}
		if string(out2) != strings.Repeat("b", n2)+"3" || s4 != string(out2) || string(out3) != "other "+strings.Repeat("B", n2) {
			r.Violation("wrong:big-output", desc(), "second/third results", trunc80(string(out2)))
		}
		r.Class(fmt.Sprintf("bytes/%v", n1 > 65536))
	}})
	// one deterministic 40-step history through every operation (round robin from each starting point)
	fams = append(fams, explore.Family{Name: "round-robin-40", Count: int64(ops), Run: func(i int64, r *explore.Rec) {
		var ts []int
		for t := 0; t < nT; t++ {
			ts = append(ts, t)
		}
		w := c03NewWorld(nB, ts)
		r.Trace()
		var names []string
		for k := 0; k < 40; k++ {
			op := (int(i) + k*7) % ops // stride 7 visits templates and environments in a mixed order
			t, b := op/nB, op%nB
			names = append(names, fmt.Sprintf("R(t%d,b%d)", t, b))
			if !w.step(r, t, b, strings.Join(names, " ; ")) {
				break
			}
		}
		r.Class("round-robin")
	}})
	return fams
}

func init() {
	explore.Register(&explore.Prop{
		ID:    "C03",
		Level: "model_checking",
		Rule: "explicit-state search over histories of renders R(t,b) on one shared world (one engine, templates parsed once, binding environments built once and shared by reference): all histories of length <=2 over 31 templates x 3 environments (quick) / <=3 over 41 x 4 (thorough), each replayed on a fresh world, plus 40-step round-robin histories from every starting operation; plus a family that keeps the []byte returned by a render of 0..2^20 bytes (13 sizes around 64, 4096, 65536) and re-reads it after later renders; " +
			"templates cover assign of a bound name, capture, shadowing loops, cycle groups, nested loops with break, every array filter on bound arrays (incl. aliased sub-slices and spare capacity), include, a render failing half-way, tablerow, typed slices, structs, pointers, Drops, MapSlice, ranges; " +
			"invariants after every step: deep snapshot of every environment unchanged (slices up to capacity, unexported fields, aliasing), result equals the solo result on a fresh engine/parse/bindings; structural changes of render trees / engine configuration are recorded (not alarms: the statement defines template immutability through re-render equality); state = canonical world snapshot after the history; transition = one render",
		Assumptions: []string{
			"ToLiquid call counts of Drops are not part of the snapshot (the README allows any number of calls)",
			"closure-captured variables are not visible to the structural snapshot; they are covered through invariant I2 and by C04's race pass",
		},
		Setup: func(string) {
			c03.solo = map[[2]int]string{}
		},
		Families: c03Families,
		Bound: func(tier string) string {
			if tier == "thorough" {
				return "all histories of length <=3 over 96 operations (885 k) + 96 round-robin histories of 40 steps"
			}
			return "all histories of length <=2 over 42 operations (1 764) + 42 round-robin histories of 40 steps"
		},
	})
}
