package props

import (
	"fmt"
	"strings"

	"github.com/osteele/liquid/render"

	"github.com/osteele/liquid"
	"verifmc/explore"
)

// C12, "again have the values they had before the loop": the VALUE bound before the loop is bound again, not a
// copy of what it evaluated to when the loop began. The binding is a Drop whose Liquid value follows live Go state
// (a counter the template advances through a filter): after the loop it must still follow it.

type c12Live struct{ n *int }

func (d c12Live) ToLiquid() any { return *d.n }

type c12LivePtr struct{ n int }

func (d *c12LivePtr) ToLiquid() any { return d.n }

func c12LiveFamily() explore.Family {
	loops := []string{"{% for NAME in (5..6) %}{{ NAME }}{% endfor %}", "{% for NAME in (5..6) %}{{ NAME }}{% break %}{% endfor %}", "{% tablerow NAME in (5..6) %}{{ NAME }}{% endtablerow %}",
		"{% for NAME in (5..6) %}{% for NAME in (7..7) %}{{ NAME }}{% endfor %}{{ NAME }}{% endfor %}", "{% for NAME in empty_list %}{% else %}E{% endfor %}", "{% for i in (5..6) %}{{ i }}{% endfor %}",
		"{% for NAME in (5..6) %}{% continue %}{% endfor %}", "{% capture c %}{% for NAME in (5..6) %}{{ NAME }}{% endfor %}{% endcapture %}{{ c }}", "{% if true %}{% for NAME in (5..6) %}{% endfor %}{% endif %}"}
	names := []string{"x", "forloop", "item-1", "ok?"}
	kinds := []string{"drop", "pointer-drop", "map-holding-drop"}
	return explore.Family{Name: "loop-over-a-name-bound-to-a-live-value", Count: int64(len(loops) * len(names) * len(kinds)), Run: func(i int64, r *explore.Rec) {
		rx := radix{i}
		kind, name, loop := kinds[rx.next(len(kinds))], names[rx.next(len(names))], loops[rx.next(len(loops))]
		n := 0
		eng := liquid.NewEngine()
		eng.RegisterFilter("bump", func(v any) string { n++; return "" })
		var bound any
		read := "{{ " + name + " }}"
		switch kind {
		case "drop":
			bound = c12Live{&n}
		case "pointer-drop":
			p := &c12LivePtr{}
			bound = p
			eng.RegisterFilter("bump", func(v any) string { n++; p.n = n; return "" })
		default:
			bound = map[string]any{"live": c12Live{&n}}
			read = "{{ " + name + ".live }}"
		}
		body := strings.ReplaceAll(loop, "NAME", name)
		if name == "forloop" {
			// forloop is shadowed by every loop's own object: the loop variable is an ordinary one
			body = strings.ReplaceAll(loop, "NAME", "i")
		}
		src := read + "|" + body + "|" + read + "{{ 0 | bump }}" + read + "{{ 0 | bump }}" + read
		// reference: the loop prints what its body prints; before and after it the name reads the live counter
		var lp string
		switch {
		case strings.Contains(loop, "break"):
			lp = "5"
		case strings.Contains(loop, "(7..7)"):
			lp = "7576"
		case strings.Contains(loop, "empty_list"):
			lp = "E"
		case strings.Contains(loop, "continue"), strings.Contains(loop, "{% if true %}"):
			lp = ""
		default:
			lp = "56"
		}
		want := "0|" + lp + "|012"
		r.Eval()
		r.Transition()
		r.Trace()
		o := Render(eng, src, map[string]any{name: bound, "empty_list": []any{}})
		got := o.Out
		if strings.Contains(loop, "tablerow") {
			got = c12StripRow(got)
		}
		r.Class("live/" + kind + "/" + o.Class())
		r.State("live:" + kind)
		if o.Panic != nil || o.Err != nil || got != want {
			r.Violation("wrong:value-before-the-loop-not-restored", map[string]any{"template": src, "binding": fmt.Sprintf("%s = %s whose Liquid value is a counter advanced by the bump filter", name, kind)}, want, o.String())
		}
	}}
}

func c12StripRow(s string) string {
	var sb strings.Builder
	in := false
	for _, c := range s {
		switch {
		case c == '<':
			in = true
		case c == '>':
			in = false
		case !in && c != '\n':
			sb.WriteRune(c)
		}
	}
	return sb.String()
}

// C12 through the extension API: a variable set by capture / assign / ctx.Set holds exactly that value for an application
// tag that reads it with ctx.Get - whatever the name looks like (a dotted or bracketed name is just a name there) and
// whatever its prefix is bound to.
func c12ContextAPIFamily() explore.Family {
	names := []string{"v", "item.size", "item.first", "item[0]", "x.y", "item", "forloop.index", "a.b.c", "item.k"}
	prefixes := []struct {
		name string
		v    any
	}{{"unbound", nil}, {"string", "abc"}, {"list", []any{"p", "q"}}, {"map", map[string]any{"k": "mv", "size": 9}}}
	setters := []string{"{% capture NAME %}T{% endcapture %}", "{% setvar NAME %}"}
	eng := liquid.NewEngine()
	eng.RegisterTag("getvar", func(ctx render.Context) (string, error) {
		return fmt.Sprint(ctx.Get(strings.TrimSpace(ctx.TagArgs()))), nil
	})
	eng.RegisterTag("setvar", func(ctx render.Context) (string, error) {
		ctx.Set(strings.TrimSpace(ctx.TagArgs()), "T")
		return "", nil
	})
	eng.RegisterTag("bindvar", func(ctx render.Context) (string, error) {
		return fmt.Sprint(ctx.Bindings()[strings.TrimSpace(ctx.TagArgs())]), nil
	})
	return explore.Family{Name: "variables-read-through-the-render-context", Count: int64(len(names) * len(prefixes) * len(setters)), Run: func(i int64, r *explore.Rec) {
		rx := radix{i}
		set, pf, name := setters[rx.next(len(setters))], prefixes[rx.next(len(prefixes))], names[rx.next(len(names))]
		src := strings.ReplaceAll(set+"[{% getvar NAME %}|{% bindvar NAME %}]{% for q in (1..2) %}{% getvar NAME %}{% endfor %}", "NAME", name)
		bind := map[string]any{}
		if pf.v != nil {
			bind["item"], bind["x"], bind["a"] = pf.v, pf.v, pf.v
		}
		if name == "item" && pf.v != nil {
			// the variable itself is overwritten by the setter
		}
		r.Eval()
		r.Transition()
		r.Trace()
		o := Render(eng, src, bind)
		r.Class("context-api/" + o.Class())
		r.State("context-api")
		if o.Panic != nil || o.Err != nil || o.Out != "[T|T]TT" {
			r.Violation("wrong:value-read-through-render-context", map[string]any{"template": src, "prefix_bound_to": pf.name}, "[T|T]TT", o.String())
		}
	}}
}
