package props

import (
	"fmt"
	"sort"
	"strconv"
	"strings"

	"github.com/osteele/liquid"
	"verifmc/explore"
)

// C19 — custom delimiters are equivalent to the defaults, hyphens included.

var c19P = []string{"<", ">", "[", "]", "$", `\`}

// templates spelled with placeholders: \x01 OL, \x02 OR, \x03 TL, \x04 TR; DEF(...) marks
// default-delimiter text that must come out as ordinary text.
var c19Templates = []string{
	"a \x01 x \x02 b",
	" \n \x01- x -\x02 \n c",
	"\x03 if x \x04 A \x03- else -\x04 B \x03 endif \x04 Z",
	"\x03 for i in l \x04\x01 i \x02,\x03 endfor \x04",
	"p\x03 raw \x04 {{ x }} {% y %} \x03 endraw \x04q",
	"\x03 comment \x04 zz \x01 x \x02 \x03 endcomment \x04k",
	"DEF({{ x }}) and DEF({% y %}) are text \x01 x \x02",
	"a\nb\n\x01 x | nosuchfilter \x02",
	// thorough
	"\x03 if x \x04 a",
	"  \x03- for i in l -\x04  \x01- i -\x02  \x03- endfor -\x04  ",
	"\x03 assign v = x | append: 'y' \x04\x03 capture c \x04(\x01 v \x02)\x03 endcapture \x04\x01 c \x02\x01 c | size \x02",
	"\x01x\x02\x01-x-\x02\x03assign w = 1\x04\x01 w \x02",
	"l1\n\x03 if x \x04\nl3 \x01 nosuchvar | divided_by: 0 \x02\n\x03 endif \x04",
	"\x03 unless x \x04U\x03 endunless \x04\x03 case x \x04\x03 when 'X' \x04W\x03- else \x04E\x03 endcase -\x04 t",
	"\x03 endif \x04",
	"\x03 nosuchtag \x04",
	"\x01 \x02",
	"\x03 tablerow i in l cols: 2 \x04\x01 i \x02\x03 endtablerow \x04",
	"\n\n\x03 for i in l \x04\n\x03 if i == 2 \x04\x03 break \x04\x03 endif \x04\x01- i \x02\n\x03 endfor \x04\n DEF(}}) \x01 'q' \x02",
	"\x03\traw\t\x04 body - \x03-endraw-\x04 DEF(%}) \x01 x\n\x02",
}

func c19Spell(t string, q [4]string, def bool) string {
	// DEF(..) segments
	var sb strings.Builder
	for {
		i := strings.Index(t, "DEF(")
		if i < 0 {
			sb.WriteString(t)
			break
		}
		j := i + 4
		depth := 1
		for ; j < len(t); j++ {
			if t[j] == '(' {
				depth++
			} else if t[j] == ')' {
				depth--
				if depth == 0 {
					break
				}
			}
		}
		sb.WriteString(t[:i])
		inner := t[i+4 : j]
		if def {
			// protect default-delimiter text in the default spelling
			if strings.HasPrefix(inner, "}}") || strings.HasPrefix(inner, "%}") {
				sb.WriteString(inner) // a lone closing delimiter is text in both spellings
			} else {
				sb.WriteString("\x03raw\x04" + inner + "\x03endraw\x04")
			}
		} else {
			sb.WriteString(inner)
		}
		t = t[j+1:]
	}
	s := sb.String()
	r := strings.NewReplacer("\x01", q[0], "\x02", q[1], "\x03", q[2], "\x04", q[3])
	return r.Replace(s)
}

var c19Default = [4]string{"{{", "}}", "{%", "%}"}

func c19Valid(q [4]string) bool {
	for i := 0; i < 4; i++ {
		for j := 0; j < 4; j++ {
			if i != j && strings.HasPrefix(q[i], q[j]) {
				return false // equal or one a prefix of another
			}
		}
	}
	return true
}

var c19 struct {
	def   *liquid.Engine
	base  map[int]Outcome
	nbase int
}

func c19Bind() map[string]any { return map[string]any{"x": "X", "l": []any{1, 2, 3}} }

func c19Base(ti int) Outcome {
	if o, ok := c19.base[ti]; ok {
		return o
	}
	o := Render(c19.def, c19Spell(c19Templates[ti], c19Default, true), c19Bind())
	c19.base[ti] = o
	return o
}

// c19Compare renders template ti under quadruple q (passed to Delims as given; eff is the effective quadruple).
func c19Compare(r *explore.Rec, ti int, given, eff [4]string, family string) {
	src := c19Spell(c19Templates[ti], eff, false)
	desc := func() any {
		return map[string]any{"delims": given, "template": src, "default_spelling": c19Spell(c19Templates[ti], c19Default, true)}
	}
	r.Eval()
	var o Outcome
	o.Panic = explore.Safe(func() {
		e := liquid.NewEngine().Delims(given[0], given[1], given[2], given[3])
		out, err := e.ParseAndRender([]byte(src), c19Bind())
		o.Out, o.Err = string(out), err
	})
	base := c19Base(ti)
	lens := fmt.Sprintf("%d%d%d%d", len(eff[0]), len(eff[1]), len(eff[2]), len(eff[3]))
	r.Class(fmt.Sprintf("t%d/%s/%s", ti, lens, o.Class()))
	switch {
	case o.Panic != nil:
		r.Violation("panic:"+family+":"+o.Panic.Key(), desc(), base.String(), o.String())
	case (o.Err != nil) != (base.Err != nil):
		r.Violation(fmt.Sprintf("differs:%s:t%d", family, ti), desc(), base.String(), o.String())
	case o.Err != nil:
		if o.Err.LineNumber() != base.Err.LineNumber() {
			r.Violation(fmt.Sprintf("error-line:%s:t%d", family, ti), desc(), fmt.Sprintf("line %d", base.Err.LineNumber()), fmt.Sprintf("line %d: %s", o.Err.LineNumber(), safeErr(o.Err)))
		} else if bc, oc := base.Err.Cause(), o.Err.Cause(); (bc == nil) != (oc == nil) || (bc != nil && safeErr(bc) != safeErr(oc)) {
			// messages may quote the tag source, which differs by spelling; causes must not
			if !strings.ContainsAny(safeErr(bc), "{}%") {
				r.Violation(fmt.Sprintf("error-cause:%s:t%d", family, ti), desc(), fmt.Sprint(bc), fmt.Sprint(oc))
			}
		}
	case o.Out != base.Out:
		r.Violation(fmt.Sprintf("differs:%s:t%d", family, ti), desc(), base.String(), o.String())
	}
	if r.WantSample() {
		r.Sample(map[string]any{"case": desc(), "observed": o.String()})
	}
}

// c19OpaqueBodies: two raw (and two comment) blocks whose bodies END in characters of the delimiters themselves
// (the first character of the tag opener, the whole opener, the first character of the object opener and of the tag
// closer) right before the end tag: each block ends at its own first end tag, the bodies are verbatim / dropped.
func c19OpaqueBodies(r *explore.Rec, q [4]string, all bool) {
	seen := map[string]bool{}
	cs := []string{q[2][:1], q[2], q[0][:1], q[3][:1], q[2][len(q[2])-1:]}
	if !all {
		cs = cs[:2] // (thorough enumerates 40 times as many quadruples: the two characters taken from the tag opener)
	}
	for _, c := range cs {
		if seen[c] {
			continue
		}
		seen[c] = true
		for ki, kind := range []string{"raw", "comment", "raw", "comment"} {
			c2 := c
			if ki >= 2 {
				c2 = "" // only the first block's body ends in such a character
			}
			src := q[2] + kind + q[3] + "a" + c + q[2] + "end" + kind + q[3] + "m" + q[2] + " " + kind + " " + q[3] + "b" + c2 + q[2] + " end" + kind + " " + q[3] + "z"
			want := "a" + c + "mb" + c2 + "z"
			if kind == "comment" {
				want = "mz"
			}
			r.Eval()
			var o Outcome
			o.Panic = explore.Safe(func() {
				out, err := liquid.NewEngine().Delims(q[0], q[1], q[2], q[3]).ParseAndRender([]byte(src), c19Bind())
				o.Out, o.Err = string(out), err
			})
			r.Class("opaque-body/" + kind + "/" + o.Class())
			if o.Panic != nil || o.Err != nil || o.Out != want {
				r.Violation("differs:opaque-body-ending-in-delimiter-characters:"+kind, map[string]any{"delims": q, "template": src}, strconv.Quote(want), o.String())
			}
		}
	}
}

func c19Strings(p []string, maxLen int) []string {
	out := []string{}
	cnt := seqCount(len(p), maxLen)
	for i := int64(1); i < cnt; i++ {
		out = append(out, joinSyms(p, seqAt(len(p), i), ""))
	}
	return out
}

func c19Families(tier string) []explore.Family {
	p, nt := c19P[:4], 8
	if tier == "thorough" {
		p, nt = c19P, len(c19Templates)
	}
	ds := c19Strings(p, 2)
	D := len(ds)
	var fams []explore.Family
	fams = append(fams, explore.Family{Name: "quadruples-len<=2", Count: int64(D) * int64(D) * int64(D) * int64(D), Stride: int64(D), Run: func(i int64, r *explore.Rec) {
		rx := radix{i}
		var q [4]string
		for j := 3; j >= 0; j-- {
			q[j] = ds[rx.next(D)]
		}
		if !c19Valid(q) {
			return
		}
		r.Trace()
		for ti := 0; ti < nt; ti++ {
			c19Compare(r, ti, q, q, "len<=2")
		}
		c19OpaqueBodies(r, q, tier != "thorough")
	}})
	// quadruples that spell the SAME string when concatenated (e.g. < >> [ ] and <> > [ ]) used back to back, in both
	// orders, with nothing scanned in between: whatever is remembered about delimiters must distinguish them.
	// All strings of length 4..6|7 over the punctuation alphabet, all their splits into four non-empty parts.
	maxS := 6
	if tier == "thorough" {
		maxS = 7
	}
	type qpair struct{ a, b [4]string }
	var pairs []qpair
	cntS := seqCount(len(p), maxS)
	for si := int64(0); si < cntS; si++ {
		S := joinSyms(p, seqAt(len(p), si), "")
		if len(S) < 4 {
			continue
		}
		var splits [][4]string
		for i := 1; i < len(S); i++ {
			for j := i + 1; j < len(S); j++ {
				for k := j + 1; k < len(S); k++ {
					q := [4]string{S[:i], S[i:j], S[j:k], S[k:]}
					if len(q[0]) <= 4 && len(q[1]) <= 4 && len(q[2]) <= 4 && len(q[3]) <= 4 && c19Valid(q) {
						splits = append(splits, q)
					}
				}
			}
		}
		for x := range splits {
			for y := range splits {
				if x != y {
					pairs = append(pairs, qpair{splits[x], splits[y]})
				}
			}
		}
	}
	fams = append(fams, explore.Family{Name: "colliding-quadruples-back-to-back", Count: int64(len(pairs)), Run: func(i int64, r *explore.Rec) {
		pr := pairs[i]
		r.Trace()
		for ti := 0; ti < nt && ti < 4; ti++ {
			c19Base(ti) // make sure the default-spelling baseline is cached: nothing but the pair is scanned below
			c19Compare(r, ti, pr.a, pr.a, "colliding")
			c19Compare(r, ti, pr.b, pr.b, "colliding")
		}
	}})
	// lengths 3 and 4 (not exhaustive): one pattern per length built from the length-<=2 strings
	var long [][4]string
	two := c19Strings(p, 2)
	for _, a := range two {
		for _, b := range two {
			if len(a)+len(b) < 3 {
				continue
			}
			q := [4]string{a + b, b + a + a[:1], a + a[:1] + b, b + b[:1] + a}
			for j := range q {
				if len(q[j]) > 4 {
					q[j] = q[j][:4]
				}
			}
			if c19Valid(q) {
				long = append(long, q)
			}
		}
	}
	fams = append(fams, explore.Family{Name: "quadruples-len3-4", Count: int64(len(long)), Run: func(i int64, r *explore.Rec) {
		r.Trace()
		for ti := 0; ti < len(c19Templates); ti++ {
			c19Compare(r, ti, long[i], long[i], "len3-4")
		}
	}})
	// a proper prefix of a closing delimiter INSIDE a tag or object is ordinary content: with ==> as the tag closer,
	// `assign same = a == b` has two of its three characters in its arguments. Every valid quadruple of the two
	// families above whose closers are at least 2 long, each proper prefix (and the prefix doubled) as a string
	// literal and as an operator-like run between operands.
	type pfxCase struct {
		q    [4]string
		p, o string // prefix of the tag closer, prefix of the object closer
	}
	var pfx []pfxCase
	addPfx := func(q [4]string) {
		for i := 1; i <= len(q[3]); i++ {
			for j := 1; j <= len(q[1]); j++ {
				tp, op := q[3][:i], q[1][:j]
				if i == len(q[3]) {
					tp = q[3][:i-1] + q[3][:i-1] // the prefix doubled instead of the whole closer
				}
				if j == len(q[1]) {
					op = q[1][:j-1] + q[1][:j-1]
				}
				if tp == "" || op == "" || strings.Contains(tp, q[3]) || strings.Contains(op, q[1]) || strings.ContainsAny(tp+op, `"'\`) {
					continue
				}
				pfx = append(pfx, pfxCase{q, tp, op})
			}
		}
	}
	for _, q := range long {
		addPfx(q)
	}
	for _, q := range [][4]string{{"[[", "]]", "<==", "==>"}, {"<<", ">>>", "[$", "$$]"}, {"<", ">>", "[", "]]]"}, {"$<", ">$", "<[[", "]]>"}} {
		if c19Valid(q) {
			addPfx(q)
		}
	}
	fams = append(fams, explore.Family{Name: "closer-prefix-inside-tags", Count: int64(len(pfx)), Run: func(i int64, r *explore.Rec) {
		c := pfx[i]
		q := c.q
		src := q[2] + ` assign v = "` + c.p + `" ` + q[3] + q[0] + ` v ` + q[1] + "|" + q[0] + ` "` + c.o + `" ` + q[1] + "|" +
			q[2] + ` if "` + c.p + `" == v ` + q[3] + "T" + q[2] + ` endif ` + q[3] + "|" + q[0] + ` "x` + c.o + `y" | size ` + q[1]
		want := c.p + "|" + c.o + "|T|" + fmt.Sprint(len(c.o)+2)
		r.Eval()
		r.Trace()
		var o Outcome
		o.Panic = explore.Safe(func() {
			e := liquid.NewEngine().Delims(q[0], q[1], q[2], q[3])
			out, err := e.ParseAndRender([]byte(src), map[string]any{})
			o.Out, o.Err = string(out), err
		})
		r.Class("closer-prefix/" + o.Class())
		if o.Panic != nil || o.Err != nil || o.Out != want {
			r.Violation("differs:closer-prefix-inside-tag", map[string]any{"delims": q, "template": src}, want, o.String())
		}
	}})
	// Delims may be called more than once on an engine: the LAST call decides, position by position - also when it names
	// nothing but defaults (four empty strings, or the default strings themselves) after a custom quadruple
	dq := [][4]string{{"<<", ">>", "<%", "%>"}, {"", "", "", ""}, {"{{", "}}", "{%", "%}"}, {"[", "]", "<", ">"}, {"<<", "", "", "%>"}, {"", ">>", "<%", ""}, {"{{", "}}", "<%", "%>"}, {"$", "$$", "[[", "]]"}}
	fams = append(fams, explore.Family{Name: "delims-called-twice", Count: int64(len(dq) * len(dq) * 3), Run: func(i int64, r *explore.Rec) {
		rx := radix{i}
		ti, b, a := rx.next(3), dq[rx.next(len(dq))], dq[rx.next(len(dq))]
		eff := b
		for k := range eff {
			if eff[k] == "" {
				eff[k] = c19Default[k]
			}
		}
		if !c19Valid(eff) {
			return
		}
		src := c19Spell(c19Templates[ti], eff, false)
		render := func(calls ...[4]string) Outcome {
			var o Outcome
			o.Panic = explore.Safe(func() {
				e := liquid.NewEngine()
				for _, q := range calls {
					e.Delims(q[0], q[1], q[2], q[3])
				}
				out, err := e.ParseAndRender([]byte(src), c19Bind())
				o.Out, o.Err = string(out), err
			})
			return o
		}
		r.Eval()
		r.Eval()
		r.Trace()
		twice, once := render(a, b), render(b)
		r.Class("delims-twice/" + once.Class())
		if twice.Sig() != once.Sig() {
			r.Violation("differs:delims-called-twice", map[string]any{"first_call": a, "second_call": b, "template": src}, "as on an engine that only got the second call: "+once.String(), twice.String())
		}
	}})
	// delimiters beyond ASCII: multi-byte characters, alone and mixed with ASCII ones, lengths 1-3 characters
	wide := [][4]string{{"«", "»", "‹%", "%›"}, {"⟦", "⟧", "⟪", "⟫"}, {"→", "←", "↑↑", "↓"}, {"«", "»", "<", ">"}, {"[[", "]]", "«%", "%»"}, {"é", "è", "ê", "ë"}, {"<é", "é>", "<è", "è>"}, {"日", "本", "語語", "文"},
		{"«««", "»»»", "‹‹", "››"}, {"<", ">", "%«", "»%"}}
	fams = append(fams, explore.Family{Name: "delimiters-beyond-ascii", Count: int64(len(wide)), Run: func(i int64, r *explore.Rec) {
		q := wide[i]
		if !c19Valid(q) {
			panic(explore.BaselineFailure{Msg: "harness: invalid quadruple " + fmt.Sprint(q)})
		}
		r.Trace()
		for ti := 0; ti < len(c19Templates); ti++ {
			if (q[0] == "<" || q[2] == "<") && strings.Contains(c19Templates[ti], "DEF(") {
				continue
			}
			c19Compare(r, ti, q, q, "beyond-ascii")
		}
		c19OpaqueBodies(r, q, true)
	}})
	// punctuation that means something elsewhere: hyphens (the trim marker's own character) inside delimiters, characters
	// special to regular expressions, the default delimiters' own characters in other roles
	meta := [][4]string{{"<-", "->", "<%-", "-%>"}, {"(*", "*)", "(+", "+)"}, {"^", "$", "~", "?"}, {"(?", "?)", "[^", "^]"}, {`\(`, `\)`, `\[`, `\]`}, {"-~", "~-", "-^", "^-"}, {"#{", "}#", "#%", "%#"},
		{"{%", "%}", "{{", "}}"}, {"--", "-~", "-+", "+-"}, {"^^", "$$", "^$", "$^"}}
	fams = append(fams, explore.Family{Name: "punctuation-with-a-meaning-elsewhere", Count: int64(len(meta)), Run: func(i int64, r *explore.Rec) {
		q := meta[i]
		if !c19Valid(q) {
			panic(explore.BaselineFailure{Msg: "harness: invalid quadruple " + fmt.Sprint(q)})
		}
		r.Trace()
		for ti := 0; ti < len(c19Templates); ti++ {
			if strings.Contains(c19Templates[ti], "DEF(") && strings.ContainsAny(strings.Join(q[:], ""), "{}%") {
				continue // default-spelled text is not ordinary text when the delimiters are made of the same characters
			}
			c19Compare(r, ti, q, q, "meaning-elsewhere:"+strings.Join(q[:], " "))
		}
		c19OpaqueBodies(r, q, true)
	}})
	// each subset of positions left empty = default at that position
	reps := [][4]string{{"<", ">", "[", "]"}, {"<<", ">>", "<$", "$>"}, {"[", "]", "<", ">"}, {"$", `\`, "<", ">"}, {"<[", "]>", "[<", ">]"}, {"<", ">>", "[[", "]"}}
	if tier == "thorough" {
		// 40 representative quadruples: every 1/40th of the valid len<=2 quadruples over P4
		ds4 := c19Strings(c19P[:4], 2)
		var all [][4]string
		for _, a := range ds4 {
			for _, b := range ds4 {
				for _, c := range ds4 {
					for _, d := range ds4 {
						if q := [4]string{a, b, c, d}; c19Valid(q) {
							all = append(all, q)
						}
					}
				}
			}
		}
		step := len(all) / 34
		for i := 0; i < len(all) && len(reps) < 40; i += step {
			reps = append(reps, all[i])
		}
	}
	fams = append(fams, explore.Family{Name: "empty-positions", Count: int64(len(reps) * 16), Run: func(i int64, r *explore.Rec) {
		q := reps[int(i)/16]
		mask := int(i) % 16
		given, eff := q, q
		for j := 0; j < 4; j++ {
			if mask&(1<<uint(j)) != 0 {
				given[j], eff[j] = "", c19Default[j]
			}
		}
		if !c19Valid(eff) {
			return
		}
		r.Trace()
		for ti := 0; ti < len(c19Templates); ti++ {
			if mask != 0 && (strings.Contains(c19Templates[ti], "DEF(") || strings.Contains(c19Templates[ti], "{{")) {
				continue // default-delimiter text is only ordinary text when no position keeps its default
			}
			c19Compare(r, ti, given, eff, "empty-positions")
		}
	}})
	// sources that {% include %} reads at render time are spelled with the same delimiters: partials holding only
	// objects, only tags, both, or no markup, under every subset of positions left empty
	parts := []string{"H \x01- x -\x02 !", "a\x03 if x \x04yes\x03 else \x04no\x03 endif \x04b", "\x01 x \x02\x03 for i in l \x04\x01 i \x02\x03 endfor \x04", "plain text only", "\x03 raw \x04 body \x03 endraw \x04"}
	const incMain = "|\x03 include 'c19part.inc' \x04|\x01 x \x02"
	incRender := func(given, eff [4]string, def bool, part string) (o Outcome, main, partSrc string) {
		main, partSrc = c19Spell(incMain, eff, def), c19Spell(part, eff, def)
		o.Panic = explore.Safe(func() {
			e := liquid.NewEngine()
			if !def {
				e.Delims(given[0], given[1], given[2], given[3])
			}
			if _, err := e.ParseTemplateAndCache([]byte(partSrc), "c19part.inc", 1); err != nil {
				o.Err = err
				return
			}
			out, err := e.ParseAndRender([]byte(main), c19Bind())
			o.Out, o.Err = string(out), err
		})
		return
	}
	fams = append(fams, explore.Family{Name: "included-sources-under-empty-positions", Count: int64(len(reps) * 16 * len(parts)), Run: func(i int64, r *explore.Rec) {
		rx := radix{i}
		part, mask, q := parts[rx.next(len(parts))], rx.next(16), reps[rx.next(len(reps))]
		given, eff := q, q
		for j := 0; j < 4; j++ {
			if mask&(1<<uint(j)) != 0 {
				given[j], eff[j] = "", c19Default[j]
			}
		}
		if !c19Valid(eff) {
			return
		}
		r.Eval()
		r.Trace()
		base, _, _ := incRender(c19Default, c19Default, true, part)
		o, main, partSrc := incRender(given, eff, false, part)
		r.Class("include/" + o.Class())
		if base.Panic != nil || base.Err != nil {
			panic(explore.BaselineFailure{Msg: "harness: default spelling fails: " + base.String()})
		}
		if o.String() != base.String() {
			r.Violation("differs:included-source", map[string]any{"delims": given, "template": main, "c19part.inc": partSrc}, base.String(), o.String())
		}
	}})
	return fams
}

func init() {
	explore.Register(&explore.Prop{
		ID:    "C19",
		Level: "exploration",
		Rule: "all quadruples of distinct, mutually non-prefixing delimiter strings of length 1-2 over {< > [ ]} (quick) / {< > [ ] $ \\} (thorough), x 8 (quick) / 20 templates re-spelled with them (object, hyphenated object, if/else with hyphens on clause tags, loop, raw holding default-delimiter text, comment, default delimiters as plain text, failing third line, unterminated block, ...); " +
			"length-3/4 quadruples on one pattern per pair of shorter strings (not exhaustive); 16 subsets of empty positions for 6 (quick) / 40 quadruples; 10 quadruples beyond ASCII and 10 of punctuation with a meaning elsewhere (hyphens, regexp metacharacters, backslashes, the default delimiters in swapped roles) x all templates + opaque bodies; oracle = output / error line / error cause of the default spelling on a default engine; " +
			"class = (template, delimiter lengths, outcome kind); distinct_nontrivial counts distinct classes",
		Assumptions: []string{
			"templates contain no character of the delimiter alphabet outside delimiters",
			"error messages may quote the tag source, so errors are compared by line number and by cause text, not by full message",
			"lengths 3-4 are covered by a pattern family only",
		},
		Setup: func(string) {
			c19.def = liquid.NewEngine()
			c19.base = map[int]Outcome{}
		},
		Families: c19Families,
		Bound: func(tier string) string {
			if tier == "thorough" {
				return "all valid quadruples of length<=2 strings over 6 symbols x 20 templates"
			}
			return "all valid quadruples of length<=2 strings over 4 symbols x 8 templates"
		},
	})
}

var _ = sort.Strings
