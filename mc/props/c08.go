package props

import (
	"fmt"
	"reflect"
	"strconv"
	"strings"

	"github.com/osteele/liquid"
	"github.com/osteele/liquid/values"
	"verifmc/explore"
	"verifmc/ref"
	"verifmc/univ"
)

// C08 — expressions: literals, variable/property/index lookup and filter pipelines.

var c08 struct {
	eng, strict *liquid.Engine
}

// ---------- reference lookups

type refRes struct {
	v      ref.V
	unspec bool
}

func refProp(v ref.V, name string) refRes {
	switch x := v.(type) {
	case ref.List:
		switch name {
		case "first":
			if len(x) > 0 {
				return refRes{v: x[0]}
			}
			return refRes{}
		case "last":
			if len(x) > 0 {
				return refRes{v: x[len(x)-1]}
			}
			return refRes{}
		case "size":
			return refRes{v: ref.Int(int64(len(x)))}
		}
		return refRes{}
	case *ref.Map:
		if val, ok := x.Vals[name]; ok {
			return refRes{v: val}
		}
		if name == "size" {
			return refRes{v: ref.Int(int64(len(x.Keys)))}
		}
		return refRes{}
	case string:
		if name == "size" || name == "first" || name == "last" {
			return refRes{unspec: true}
		}
		return refRes{}
	}
	return refRes{} // property of a scalar or of nil
}

func refIndex(v, k ref.V) refRes {
	switch x := v.(type) {
	case ref.List:
		switch i := k.(type) {
		case ref.Num:
			if !i.R.IsInt() || i.Float {
				return refRes{unspec: true}
			}
			if !i.R.Num().IsInt64() {
				return refRes{}
			}
			n := i.R.Num().Int64()
			if n < 0 {
				n += int64(len(x))
			}
			if n >= 0 && n < int64(len(x)) {
				return refRes{v: x[n]}
			}
			return refRes{}
		case string:
			if i == "first" || i == "last" || i == "size" {
				return refRes{unspec: true}
			}
		}
		return refRes{}
	case *ref.Map:
		if s, ok := k.(string); ok {
			if val, ok := x.Vals[s]; ok {
				return refRes{v: val}
			}
			if s == "size" {
				return refRes{unspec: true}
			}
		}
		return refRes{}
	case string:
		return refRes{unspec: true}
	}
	return refRes{}
}

// ---------- expression trees over atoms

type c08Expr struct {
	src    string
	eval   func(env map[string]ref.V) refRes
	hasDot bool
}

var c08Env = map[string]ref.V{
	"a": univ.L(ref.Int(10), univ.L(ref.Int(20), ref.Int(21)), ref.NewMap("b", ref.Int(30)), "str"),
	"m": ref.NewMap("b", ref.Int(1), "a", univ.L(ref.Int(5), ref.Int(6)), "m", ref.NewMap("b", ref.Int(7)), "first", "F"),
	"s": "b",
	"n": nil,
	"i": ref.Int(1),
	"d": ref.NewMap("b", ref.Int(2), "l", univ.L(ref.Int(1), ref.Int(2))),
	"e": univ.L(),
}

func c08Bind() map[string]any {
	return map[string]any{
		"a": []any{10, []any{20, 21}, map[string]any{"b": 30}, "str"},
		"m": map[string]any{"b": 1, "a": []any{5, 6}, "m": map[string]any{"b": 7}, "first": "F"},
		"s": "b",
		"n": nil,
		"i": 1,
		"d": univ.Drop{V: map[string]any{"b": 2, "l": []int{1, 2}}},
		"e": []any{},
	}
}

func c08Atoms() []c08Expr {
	lit := func(src string, v ref.V) c08Expr {
		return c08Expr{src: src, eval: func(map[string]ref.V) refRes { return refRes{v: v} }}
	}
	vr := func(name string) c08Expr {
		return c08Expr{src: name, eval: func(env map[string]ref.V) refRes { return refRes{v: env[name]} }}
	}
	return []c08Expr{
		lit("nil", nil), lit("true", true), lit("0", ref.Int(0)), lit("1", ref.Int(1)), lit("-1", ref.Int(-1)), lit("1.5", ref.Float(1.5)), lit(`"b"`, "b"), lit(`""`, ""),
		vr("a"), vr("m"), vr("s"), vr("n"), vr("u"), vr("i"), vr("d"), vr("e"),
	}
}

var c08Props = []string{"first", "last", "size", "b", "missing", "a", "m", "l"}

func c08PropOf(e c08Expr, p string) c08Expr {
	return c08Expr{src: e.src + "." + p, hasDot: true, eval: func(env map[string]ref.V) refRes {
		r := e.eval(env)
		if r.unspec {
			return r
		}
		return refProp(r.v, p)
	}}
}

func c08IndexOf(e, k c08Expr) c08Expr {
	return c08Expr{src: e.src + "[" + k.src + "]", hasDot: e.hasDot || k.hasDot, eval: func(env map[string]ref.V) refRes {
		r, kr := e.eval(env), k.eval(env)
		if r.unspec || kr.unspec {
			return refRes{unspec: true}
		}
		return refIndex(r.v, kr.v)
	}}
}

// literal forms that cannot take a postfix in this grammar are still fine: "0.first" etc. are lexed oddly,
// so postfix is only applied to variables and to parenthesis-free postfix expressions.
func c08Postfixable(e c08Expr) bool {
	c := e.src[0]
	return (c >= 'a' && c <= 'z') && e.src != "nil" && e.src != "true"
}

func c08Depth1() []c08Expr {
	atoms := c08Atoms()
	out := append([]c08Expr{}, atoms...)
	for _, e := range atoms {
		if !c08Postfixable(e) {
			continue
		}
		for _, p := range c08Props {
			out = append(out, c08PropOf(e, p))
		}
		for _, k := range atoms {
			out = append(out, c08IndexOf(e, k))
		}
	}
	return out
}

func c08Judge(r *explore.Rec, family string, e c08Expr) {
	src := "{{ " + e.src + " }}"
	want := e.eval(c08Env)
	desc := func() any { return map[string]any{"template": src, "bindings": c08BindDesc} }
	for mode, eng := range []*liquid.Engine{c08.eng, c08.strict} {
		r.Eval()
		r.Transition()
		o := Render(eng, src, c08Bind())
		if o.Panic != nil {
			r.Violation("panic:"+family, desc(), "a value", o.String())
			return
		}
		if want.unspec {
			r.Class(family + "/unspecified")
			continue
		}
		printed, ok := ref.Print(want.v)
		if !ok {
			r.Class(family + "/unprintable")
			continue
		}
		r.Trace()
		if mode == 1 && want.v == nil {
			r.Class(family + "/strict-nil")
			if o.Err == nil {
				r.Violation("strict-nil-not-error:"+family, desc(), "an error (strict variables: the object's final value is nil)", o.String())
			}
			continue
		}
		r.Class(family + "/" + ref.Kind(want.v))
		if o.Err != nil || o.Out != printed {
			r.Violation("wrong-value:"+family+":"+[]string{"default", "strict"}[mode], desc(), strconv.Quote(printed), o.String())
		}
	}
	if r.WantSample() {
		r.Sample(map[string]any{"template": src, "expected": ref.Show(want.v), "unspecified": want.unspec})
	}
}

const c08BindDesc = `a=[10,[20,21],{"b":30},"str"] m={"b":1,"a":[5,6],"m":{"b":7},"first":"F"} s="b" n=nil i=1 d=Drop{{"b":2,"l":[1,2]}} e=[] u undefined`

// ---------- pipeline steps (E2)

type c08Step struct {
	src   string
	nargs int
}

func c08Steps(args []string) []c08Step {
	var out []c08Step
	for _, f := range []string{"first", "last", "size", "upcase", "reverse", "compact", "sort", "uniq", "abs", "strip", "json"} {
		out = append(out, c08Step{f, 0})
	}
	for _, f := range []string{"append", "plus", "default", "join", "slice", "times", "concat", "map", "split", "truncate", "prepend"} {
		for _, a := range args {
			out = append(out, c08Step{f + ": " + a, 1})
		}
	}
	for _, a := range args[:3] {
		for _, b := range args[:3] {
			out = append(out, c08Step{"slice: " + a + ", " + b, 2}, c08Step{"replace: " + a + ", " + b, 2})
		}
	}
	return out
}

// c08FilterArity, when the build carries the export overlay (tag verifx), reads a filter's real signature.
var c08FilterArity func(e *liquid.Engine, name string) (maxArgs int, variadic bool, ok bool)

// fallback table (used only when the overlay is unavailable): maximum number of arguments of the standard filters
var c08Arity = map[string]int{
	"default": 1, "json": 0, "compact": 0, "concat": 1, "join": 1, "map": 1, "reverse": 0, "sort": 1, "first": 0, "last": 0, "uniq": 0,
	"date": 1, "abs": 0, "ceil": 0, "floor": 0, "modulo": 1, "minus": 1, "plus": 1, "times": 1, "divided_by": 1, "round": 1, "size": 0,
	"append": 1, "capitalize": 1, "downcase": 1, "escape": 0, "escape_once": 1, "newline_to_br": 0, "prepend": 1, "remove": 1, "remove_first": 1,
	"replace": 2, "replace_first": 2, "sort_natural": 1, "slice": 2, "split": 1, "strip_html": 0, "strip_newlines": 0, "strip": 0, "lstrip": 0,
	"rstrip": 0, "truncate": 2, "truncatewords": 2, "upcase": 1, "url_encode": 0, "url_decode": 0, "inspect": 0, "type": 0,
}

var c08Gaps = []string{"", " ", "\n", "\t "}

func c08Families(tier string) []explore.Family {
	thorough := tier == "thorough"
	var fams []explore.Family

	// (1) lookup grid: arrays of length 0..5 in 4 representations x index -7..7 (literal, variable, nested), non-integer indices, properties
	reprs := []string{"[]any", "[]int", "array", "drop"}
	nonInt := []struct {
		src string
		v   any
	}{{"nil", nil}, {"true", true}, {`"1"`, "1"}, {`"x"`, "x"}, {"li", []any{1}}, {"mp", map[string]any{}}}
	fams = append(fams, explore.Family{Name: "array-lookup-grid", Count: int64(6 * len(reprs)), Run: func(i int64, r *explore.Rec) {
		n, rp := int(i)%6, reprs[int(i)/6]
		mk := func() any {
			g := make([]any, n)
			ints := make([]int, n)
			for j := 0; j < n; j++ {
				g[j], ints[j] = 10+j, 10+j
			}
			switch rp {
			case "[]int":
				return ints
			case "array":
				arr := reflect.New(reflect.ArrayOf(n, reflect.TypeOf(0))).Elem()
				for j := 0; j < n; j++ {
					arr.Index(j).SetInt(int64(10 + j))
				}
				return arr.Interface()
			case "drop":
				return univ.Drop{V: g}
			}
			return g
		}
		elem := func(idx int) string {
			if idx < 0 {
				idx += n
			}
			if idx >= 0 && idx < n {
				return strconv.Itoa(10 + idx)
			}
			return ""
		}
		check := func(src string, b map[string]any, want string) {
			r.Eval()
			r.Transition()
			r.Trace()
			b["a"] = mk()
			b["li"], b["mp"] = []any{1}, map[string]any{}
			o := Render(c08.eng, src, b)
			r.Class("grid/" + fmt.Sprint(want != ""))
			if o.Panic != nil || o.Err != nil || o.Out != want {
				r.Violation("wrong-value:array-lookup", map[string]any{"template": src, "array_length": n, "representation": rp, "bindings": fmt.Sprint(b)}, strconv.Quote(want), o.String())
			}
			// strict mode: nil final value is an error, anything else unchanged
			r.Eval()
			os := Render(c08.strict, src, b)
			if strings.HasPrefix(src, "[") {
				// composite of nil objects: each is an error in strict mode
				if os.Err == nil {
					r.Violation("strict-nil-not-error:array-lookup", map[string]any{"template": src, "array_length": n}, "error", os.String())
				}
			} else if want == "" {
				if os.Err == nil {
					r.Violation("strict-nil-not-error:array-lookup", map[string]any{"template": src, "array_length": n}, "error", os.String())
				}
			} else if os.Err != nil || os.Out != want {
				r.Violation("wrong-value:array-lookup:strict", map[string]any{"template": src, "array_length": n}, strconv.Quote(want), os.String())
			}
		}
		r.State(fmt.Sprintf("array:%d", n))
		for idx := -7; idx <= 7; idx++ {
			check(fmt.Sprintf("{{ a[%d] }}", idx), map[string]any{}, elem(idx))
			check("{{ a[k] }}", map[string]any{"k": idx}, elem(idx))
			check("{{ a[b[0]] }}", map[string]any{"b": []any{idx}}, elem(idx))
			check("{{ a[b.k] }}", map[string]any{"b": map[string]any{"k": idx}}, elem(idx))
		}
		for _, ni := range nonInt {
			check("{{ a["+ni.src+"] }}", map[string]any{}, "")
		}
		check("{{ a.first }}", map[string]any{}, elem(0))
		last := ""
		if n > 0 {
			last = elem(n - 1)
		}
		check("{{ a.last }}", map[string]any{}, last)
		check("{{ a.size }}", map[string]any{}, strconv.Itoa(n))
		check("{{ a.missing }}", map[string]any{}, "")
		check("[{{ a.first.first }}{{ a[0][0] }}{{ a.size.size }}]", map[string]any{}, "[]")
	}})
	// maps
	type mapCase struct {
		name string
		mk   func() any
		l    *ref.Map
	}
	maps := []mapCase{
		{"{}", func() any { return map[string]any{} }, ref.NewMap()},
		{`{"b":1}`, func() any { return map[string]any{"b": 1} }, ref.NewMap("b", ref.Int(1))},
		{`{"b":1,"size":9}`, func() any { return map[string]any{"b": 1, "size": 9} }, ref.NewMap("b", ref.Int(1), "size", ref.Int(9))},
		{`{"first":2}`, func() any { return map[string]any{"first": 2} }, ref.NewMap("first", ref.Int(2))},
		{`{"size":nil,"k":"v"}`, func() any { return map[string]any{"size": nil, "k": "v"} }, ref.NewMap("size", nil, "k", "v")},
		{`{"first":nil,"b":false}`, func() any { return map[string]any{"first": nil, "b": false} }, ref.NewMap("first", nil, "b", false)},
		{`map[string]int{"b":1}`, func() any { return map[string]int{"b": 1} }, ref.NewMap("b", ref.Int(1))},
		{`Drop{{"b":1}}`, func() any { return univ.Drop{V: map[string]any{"b": 1}} }, ref.NewMap("b", ref.Int(1))},
		{`*map{"b":1}`, func() any { m := map[string]any{"b": 1}; return &m }, ref.NewMap("b", ref.Int(1))},
	}
	mapForms := []struct {
		src  string
		eval func(m *ref.Map) refRes
	}{
		{"m.b", func(m *ref.Map) refRes { return refProp(m, "b") }},
		{`m["b"]`, func(m *ref.Map) refRes { return refIndex(m, "b") }},
		{`m['b']`, func(m *ref.Map) refRes { return refIndex(m, "b") }},
		{"m[k]", func(m *ref.Map) refRes { return refIndex(m, "b") }},
		{"m.size", func(m *ref.Map) refRes { return refProp(m, "size") }},
		{"m.missing", func(m *ref.Map) refRes { return refProp(m, "missing") }},
		{`m["missing"]`, func(m *ref.Map) refRes { return refIndex(m, "missing") }},
		{"m.first", func(m *ref.Map) refRes { return refProp(m, "first") }},
		{"m[0]", func(m *ref.Map) refRes { return refIndex(m, ref.Int(0)) }},
		{"m[nil]", func(m *ref.Map) refRes { return refIndex(m, nil) }},
		{"m.b.b", func(m *ref.Map) refRes { return refRes{} }},
		{"m.missing.b", func(m *ref.Map) refRes { return refRes{} }},
	}
	// an index reads the entry whose KEY EQUALS it - a value of another kind is not a key: an integer is not the
	// string it is the code point or the spelling of, 2.5 is not 2, 300 is not uint8(44). Maps with string, named
	// string, int, uint8 and interface keys x indices of every kind that could be confused with a key.
	type keyCase struct {
		name string
		m    any
		hits map[string]string // printed form of the index (see idxs) -> value; everything else must be nil
	}
	keyMaps := []keyCase{
		{`map[string]any{"A","1","65","é","2.5","true"}`, map[string]any{"A": "cp", "1": "one", "65": "sixtyfive", "é": "e", "2.5": "f", "true": "t"},
			map[string]string{`"A"`: "cp", `"1"`: "one", `"65"`: "sixtyfive", `"é"`: "e", `"2.5"`: "f", `"true"`: "t", `named"A"`: "cp"}},
		{`map[NamedString]any{"A","65"}`, map[univ.NamedString]any{"A": "cp", "65": "sixtyfive"}, map[string]string{`"A"`: "cp", `"65"`: "sixtyfive", `named"A"`: "cp"}},
		{`map[int]any{2,44,65}`, map[int]any{2: "two", 44: "ff", 65: "sf"}, map[string]string{"2": "two", "int64(2)": "two", "uint8(2)": "two", "65": "sf", "44": "ff"}},
		{`map[uint8]any{44,2}`, map[uint8]any{44: "u8", 2: "two"}, map[string]string{"2": "two", "int64(2)": "two", "uint8(2)": "two", "44": "u8"}},
		{`map[any]any{"A",65,2.5,true}`, map[any]any{"A": "cp", 65: "sf", 2.5: "f", true: "t"}, map[string]string{`"A"`: "cp", `named"A"`: "cp", "65": "sf", "2.5": "f", "true": "t"}},
	}
	type idxCase struct {
		name string
		v    any
	}
	idxs := []idxCase{{`"A"`, "A"}, {`"1"`, "1"}, {`"65"`, "65"}, {`"é"`, "é"}, {`"2.5"`, "2.5"}, {`"true"`, "true"}, {`named"A"`, univ.NamedString("A")}, {`"2"`, "2"}, {`"44"`, "44"},
		{"65", 65}, {"1", 1}, {"49", 49}, {"233", 233}, {"2", 2}, {"int64(2)", int64(2)}, {"uint8(2)", uint8(2)}, {"44", 44}, {"300", 300}, {"-212", -212}, {"2.5", 2.5}, {"65.5", 65.5},
		{"true", true}, {"false", false}, {"nil", nil}, {"[]", []any{}}, {`["A"]`, []any{"A"}}, {"{}", map[string]any{}}}
	// numerically equal keys of another numeric kind (2.0 for the key 2): whether they match is not stated
	unspecIdx := map[string]bool{}
	fams = append(fams, explore.Family{Name: "map-index-of-another-kind", Count: int64(len(keyMaps) * len(idxs)), Run: func(i int64, r *explore.Rec) {
		kc, ic := keyMaps[int(i)%len(keyMaps)], idxs[int(i)/len(keyMaps)]
		if unspecIdx[ic.name] {
			return
		}
		want := kc.hits[ic.name]
		src := "{{ m[k] }}|{{ m[k] | default: 'none' }}|{% if m[k] %}T{% else %}F{% endif %}"
		exp := want + "|" + want + "|T"
		if want == "" {
			exp = "|none|F"
		}
		r.Eval()
		r.Transition()
		r.Trace()
		o := Render(c08.eng, src, map[string]any{"m": kc.m, "k": ic.v})
		desc := map[string]any{"template": src, "m": kc.name, "k": ic.name}
		r.Class(fmt.Sprintf("key-kinds/%v", want != ""))
		if o.Panic != nil || o.Err != nil || o.Out != exp {
			r.Violation("wrong-value:map-index-of-another-kind:"+strings.SplitN(kc.name, "{", 2)[0]+":"+fmt.Sprintf("%T", ic.v), desc, exp, o.String())
		}
		r.Eval()
		os := Render(c08.strict, "{{ m[k] }}", map[string]any{"m": kc.m, "k": ic.v})
		if want == "" && os.Err == nil {
			r.Violation("strict-nil-not-error:map-index-of-another-kind", desc, "error (no such key)", os.String())
		}
	}})

	fams = append(fams, explore.Family{Name: "map-lookup-grid", Count: int64(len(maps) * len(mapForms)), Run: func(i int64, r *explore.Rec) {
		mc, f := maps[int(i)%len(maps)], mapForms[int(i)/len(maps)]
		want := f.eval(mc.l)
		if want.unspec {
			return
		}
		printed, _ := ref.Print(want.v)
		src := "{{ " + f.src + " }}"
		r.Eval()
		r.Transition()
		r.Trace()
		r.State("map:" + mc.name)
		o := Render(c08.eng, src, map[string]any{"m": mc.mk(), "k": "b"})
		r.Class("mapgrid/" + fmt.Sprint(want.v != nil))
		if o.Panic != nil || o.Err != nil || o.Out != printed {
			r.Violation("wrong-value:map-lookup", map[string]any{"template": src, "m": mc.name, "k": "b"}, strconv.Quote(printed), o.String())
		}
	}})
	// scalars and nil x every access form -> nil
	scalars := []univ.Val{}
	for _, v := range univ.Logical() {
		switch v.L.(type) {
		case nil, bool, ref.Num:
			scalars = append(scalars, v)
		}
	}
	scalarForms := []string{"v.size", "v.first", "v.x", "v[0]", `v["x"]`, "v[nil]", "v.x.y", "v[0][1]", "v[v]"}
	fams = append(fams, explore.Family{Name: "scalar-lookup", Count: int64(len(scalars) * len(scalarForms)), Run: func(i int64, r *explore.Rec) {
		v, f := scalars[int(i)%len(scalars)], scalarForms[int(i)/len(scalars)]
		src := "[{{ " + f + " }}]"
		r.Eval()
		r.Transition()
		r.Trace()
		o := Render(c08.eng, src, map[string]any{"v": v.Build()})
		r.Class("scalar/" + ref.Kind(v.L))
		if o.Panic != nil || o.Err != nil || o.Out != "[]" {
			r.Violation("wrong-value:scalar-lookup", map[string]any{"template": src, "v": v.Name}, `"[]" (a step that does not apply yields nil)`, o.String())
		}
	}})

	// (2) expression trees: depth<=1 postfix chains, then depth 2
	d1 := c08Depth1()
	fams = append(fams, explore.Family{Name: "trees-depth1", Count: int64(len(d1)), Run: func(i int64, r *explore.Rec) {
		r.State("depth1")
		c08Judge(r, "tree1", d1[i])
	}})
	atoms := c08Atoms()
	// depth 2: (depth-1 expr).P and (depth-1 expr)[atom] and atom-var[depth-1 expr]
	var post []c08Expr
	for _, e := range d1 {
		if c08Postfixable(e) {
			post = append(post, e)
		}
	}
	fams = append(fams, explore.Family{Name: "trees-depth2-prop", Count: int64(len(post) * len(c08Props)), Run: func(i int64, r *explore.Rec) {
		r.State("depth2")
		c08Judge(r, "tree2p", c08PropOf(post[int(i)/len(c08Props)], c08Props[int(i)%len(c08Props)]))
	}})
	fams = append(fams, explore.Family{Name: "trees-depth2-index", Count: int64(len(post) * len(atoms)), Run: func(i int64, r *explore.Rec) {
		r.State("depth2")
		c08Judge(r, "tree2i", c08IndexOf(post[int(i)/len(atoms)], atoms[int(i)%len(atoms)]))
	}})
	var vars []c08Expr
	for _, a := range atoms {
		if c08Postfixable(a) {
			vars = append(vars, a)
		}
	}
	fams = append(fams, explore.Family{Name: "trees-depth2-index-by-expr", Count: int64(len(vars) * len(d1)), Run: func(i int64, r *explore.Rec) {
		r.State("depth2")
		c08Judge(r, "tree2x", c08IndexOf(vars[int(i)/len(d1)], d1[int(i)%len(d1)]))
	}})
	if thorough {
		fams = append(fams, explore.Family{Name: "trees-depth3-index", Count: int64(len(post) * len(d1)), Run: func(i int64, r *explore.Rec) {
			r.State("depth3")
			c08Judge(r, "tree3", c08IndexOf(post[int(i)/len(d1)], d1[int(i)%len(d1)]))
		}})
	}

	// scaled: long arrays (index at the boundaries), deep property chains, long pipelines
	bigLens := []int{6, 7, 8, 9, 15, 16, 17, 31, 32, 33, 63, 64, 65, 100, 127, 128, 129, 255, 256, 257, 1000, 4097}
	fams = append(fams, explore.Family{Name: "scaled", Count: int64(len(bigLens)), Run: func(i int64, r *explore.Rec) {
		n := bigLens[i]
		arr := make([]any, n)
		ints := make([]int, n)
		for j := range arr {
			arr[j], ints[j] = 1000+j, 1000+j
		}
		// nested maps n levels deep: m.k.k...k.v
		var deep any = map[string]any{"v": "bottom"}
		for j := 0; j < n && j < 300; j++ {
			deep = map[string]any{"k": deep}
		}
		depth := n
		if depth > 300 {
			depth = 300
		}
		chain := "deep" + strings.Repeat(".k", depth) + ".v"
		brack := "deep" + strings.Repeat(`["k"]`, depth) + `["v"]`
		elem := func(idx int) string {
			if idx < 0 {
				idx += n
			}
			if idx >= 0 && idx < n {
				return strconv.Itoa(1000 + idx)
			}
			return ""
		}
		for _, a := range []any{arr, ints} {
			b := map[string]any{"a": a, "deep": deep}
			for _, idx := range []int{0, 1, n / 2, n - 2, n - 1, n, n + 1, -1, -2, -n + 1, -n, -n - 1} {
				r.Eval()
				r.Transition()
				b["k"] = idx
				o := Render(c08.eng, fmt.Sprintf("{{ a[%d] }}|{{ a[k] }}", idx), b)
				if want := elem(idx) + "|" + elem(idx); o.Panic != nil || o.Err != nil || o.Out != want {
					r.Violation("wrong-value:scaled-index", map[string]any{"array_length": n, "index": idx}, want, o.String())
				}
			}
			r.Eval()
			o := Render(c08.eng, "{{ a.first }}|{{ a.last }}|{{ a.size }}|{{ a | size }}|{{ a | first }}|{{ a | last }}", b)
			if want := fmt.Sprintf("1000|%d|%d|%d|1000|%d", 999+n, n, n, 999+n); o.Out != want || o.Err != nil {
				r.Violation("wrong-value:scaled-first-last-size", map[string]any{"array_length": n}, want, o.String())
			}
		}
		r.Eval()
		o := Render(c08.eng, "{{ "+chain+" }}|{{ "+brack+" }}|{{ "+chain+".x.y }}", map[string]any{"deep": deep})
		if o.Panic != nil || o.Err != nil || o.Out != "bottom|bottom|" {
			r.Violation("wrong-value:scaled-property-chain", map[string]any{"depth": depth}, "bottom|bottom|", trunc80(o.String()))
		}
		// a pipeline of n steps equals its decomposition
		steps := n
		if steps > 130 {
			steps = 130
		}
		var pipe, dec strings.Builder
		pipe.WriteString("{{ 0")
		prev := "0"
		for j := 0; j < steps; j++ {
			st := []string{" | plus: 1", " | append: '' | plus: 0", " | times: 1"}[j%3]
			pipe.WriteString(st)
			fmt.Fprintf(&dec, "{%% assign t%d = %s%s %%}", j, prev, st)
			prev = fmt.Sprintf("t%d", j)
		}
		pipe.WriteString(" }}")
		r.Eval()
		r.Eval()
		o1, o2 := Render(c08.eng, pipe.String(), map[string]any{}), Render(c08.eng, dec.String()+"{{ "+prev+" }}", map[string]any{})
		if o1.Panic != nil || o1.Err != nil || o1.Out != o2.Out || o1.Out != strconv.Itoa((steps+2)/3) {
			r.Violation("pipeline-law:scaled", map[string]any{"steps": steps}, o2.String(), o1.String())
		}
		r.Trace()
		r.Class("scaled")
		r.State("scaled")
	}})

	// (E2) pipeline law: x | f | g  ==  assign t1 = x | f ; assign t2 = t1 | g ; print t2
	// arguments include parenthesised pipelines (the grammar allows a pipeline inside parentheses anywhere an
	// expression may stand)
	args := []string{"i", `"b"`, "a", "n", "2", "m.b", "(s | upcase)", "(i | plus: 1)", "(a | first)"}
	steps := c08Steps(args)
	// (maps are not array-filter input here: their order is C02's business)
	recv := []string{"a", "s", "n", "u", "i", "e", `"Ab c"`, "1.5", "a[1]", "m.a", "(1..3)", "d.l", "m.b", "a[3]", "a[(i | minus: 1)]", "((i)..(i | plus: 2))", "(s | append: s)"}
	NS, NR := len(steps), len(recv)
	fams = append(fams, explore.Family{Name: "pipeline-law-2", Count: int64(NR * NS * NS), Run: func(i int64, r *explore.Rec) {
		rx := radix{i}
		g, f, x := steps[rx.next(NS)], steps[rx.next(NS)], recv[rx.next(NR)]
		c08Pipeline(r, x, []c08Step{f, g})
	}})
	if thorough {
		var light []c08Step
		for _, s := range steps {
			if s.nargs == 0 || strings.HasSuffix(s.src, ": i") || strings.HasSuffix(s.src, `: "b"`) {
				light = append(light, s)
			}
		}
		NL := len(light)
		fams = append(fams, explore.Family{Name: "pipeline-law-3", Count: int64(NR * NL * NL * NL), Run: func(i int64, r *explore.Rec) {
			rx := radix{i}
			h, g, f, x := light[rx.next(NL)], light[rx.next(NL)], light[rx.next(NL)], recv[rx.next(NR)]
			c08Pipeline(r, x, []c08Step{f, g, h})
		}})
	}
	// arguments are evaluated in the current bindings
	fams = append(fams, explore.Family{Name: "args-current-bindings", Count: int64(NR * len(args)), Run: func(i int64, r *explore.Rec) {
		x, a := recv[int(i)%NR], args[int(i)/NR]
		for _, f := range []string{"append", "default", "plus", "join"} {
			s1 := "{{ " + x + " | " + f + ": " + a + " }}"
			s2 := "{% assign k = 5 %}{% assign k = " + a + " %}{{ " + x + " | " + f + ": k }}"
			r.Eval()
			r.Eval()
			r.Transition()
			o1, o2 := Render(c08.eng, s1, c08Bind()), Render(c08.eng, s2, c08Bind())
			r.Class("args/" + o1.Class())
			if (o1.Err != nil) != (o2.Err != nil) || o1.Out != o2.Out || o1.Panic != nil || o2.Panic != nil {
				r.Violation("args-current-bindings", map[string]any{"direct": s1, "via_assign": s2}, o1.String(), o2.String())
			}
		}
	}})

	// (N) a name denotes its binding, whatever word it is: every word of Liquid's own vocabulary (tag, clause,
	// modifier, filter and special-value names, in several case forms and as prefixes of longer names) used as
	// a variable, as a property and as a loop source. Only the literals nil/true/false and the operator words
	// and/or/contains/in are not names in this grammar.
	vocab := []string{"empty", "blank", "null", "none", "not", "size", "first", "last", "forloop", "tablerowloop", "tablerow", "reversed", "limit", "offset", "cols",
		"with", "for", "if", "else", "elsif", "end", "endif", "endfor", "present", "default", "range", "assign", "capture", "include", "cycle", "case", "when", "unless",
		"break", "continue", "raw", "comment", "liquid", "echo", "render", "increment", "decrement", "loop", "item", "upcase", "join", "map", "sort", "date", "now", "today",
		"e", "inf", "nan", "NaN", "x2", "_", "_a", "a_", "a-b", "a?", "if2", "orx", "andy", "ina", "inx", "nilx", "truex", "falsey", "contains2", "Empty", "Blank", "NIL", "Nil",
		"True", "FALSE", "And", "OR", "In", "Contains", "index", "index0", "rindex", "length", "name", "parentloop", "self", "this", "it", "page", "site", "layout", "content"}
	fams = append(fams, explore.Family{Name: "vocabulary-words-as-names", Count: int64(len(vocab)), Run: func(i int64, r *explore.Rec) {
		n := vocab[i]
		src := "{{ " + n + " }}|{{ " + n + ".size }}|{{ " + n + "[0] }}|{{ " + n + "[-1] }}|{% assign z = " + n + " %}{{ z | join: '' }}|{% if " + n + " %}T{% endif %}|{{ m." + n + " }}|{{ m[\"" + n + "\"] }}|" +
			"{% for i in " + n + " %}{{ i }}{% endfor %}|{% if " + n + " == z %}E{% endif %}|{% if " + n + " contains 'q' %}C{% endif %}|{{ " + n + " | first }}"
		want := "pq|2|p|q|pq|T|mv|mv|pq|E|C|p"
		for _, eng := range []*liquid.Engine{c08.eng, c08.strict} {
			r.Eval()
			r.Transition()
			r.Trace()
			o := Render(eng, src, map[string]any{n: []any{"p", "q"}, "m": map[string]any{n: "mv"}})
			if o.Panic != nil || o.Err != nil || o.Out != want {
				r.Violation("name-does-not-denote-its-binding", map[string]any{"template": src, "name": n, "strict": eng == c08.strict}, want, o.String())
			}
		}
		r.Class("vocabulary-name")
	}})

	// (S) strict-variables mode reports an object's final value exactly when that value is nil. Empty is not nil:
	// an unset (nil) Go map is the empty map, a nil slice the empty array, "" / false / 0 are values. Every such
	// value is reached directly, as a map entry, an array item, a struct field, through a pointer and a Drop.
	type strictHolder struct {
		M  map[string]any
		MI map[string]int
		L  []any
		LS []string
		P  *int
		PS *strictHolder
		E  string
		Z  int
		F  bool
		I  any
	}
	type sval struct {
		name  string
		build func() any
		isNil bool
	}
	zero := 0
	svals := []sval{
		{"untyped-nil", func() any { return nil }, true}, {"nil-map", func() any { return map[string]any(nil) }, false}, {"nil-typed-map", func() any { return map[string]int(nil) }, false},
		{"nil-map-any-keys", func() any { return map[any]any(nil) }, false}, {"empty-map", func() any { return map[string]any{} }, false},
		{"nil-slice", func() any { return []any(nil) }, false}, {"nil-string-slice", func() any { return []string(nil) }, false}, {"empty-slice", func() any { return []any{} }, false},
		{"empty-string", func() any { return "" }, false}, {"false", func() any { return false }, false}, {"zero", func() any { return 0 }, false},
		{"nil-int-pointer", func() any { return (*int)(nil) }, true}, {"nil-struct-pointer", func() any { return (*strictHolder)(nil) }, true},
		{"pointer-to-zero", func() any { return &zero }, false}, {"pointer-to-nil-map", func() any { var m map[string]any; return &m }, false},
		{"drop-yielding-nil", func() any { return univ.Drop{V: nil} }, true}, {"drop-yielding-nil-map", func() any { return univ.Drop{V: map[string]any(nil)} }, false},
		{"drop-yielding-empty-string", func() any { return univ.Drop{V: ""} }, false}, {"empty-bytes", func() any { return []byte{} }, false}, {"nil-bytes", func() any { return []byte(nil) }, false},
	}
	sroutes := []struct {
		name, src string
		bind      func(v any) map[string]any
	}{
		{"direct", "{{ v }}", func(v any) map[string]any { return map[string]any{"v": v} }},
		{"map-entry", "{{ m.k }}", func(v any) map[string]any { return map[string]any{"m": map[string]any{"k": v}} }},
		{"array-item", "{{ l[1] }}", func(v any) map[string]any { return map[string]any{"l": []any{1, v}} }},
		{"via-assign", "{% assign z = v %}{{ z }}", func(v any) map[string]any { return map[string]any{"v": v} }},
		{"through-drop", "{{ d.k }}", func(v any) map[string]any { return map[string]any{"d": univ.Drop{V: map[string]any{"k": v}}} }},
		{"interface-field", "{{ h.I }}", func(v any) map[string]any { return map[string]any{"h": strictHolder{I: v}} }},
		{"interface-field-through-pointer", "{{ h.I }}", func(v any) map[string]any { return map[string]any{"h": &strictHolder{I: v}} }},
	}
	sfields := []struct {
		field string
		isNil bool
	}{{"M", false}, {"MI", false}, {"L", false}, {"LS", false}, {"P", true}, {"PS", true}, {"E", false}, {"Z", false}, {"F", false}, {"I", true}, {"M.size", false}, {"L.size", false}, {"L.first", true}, {"M.k", true}}
	fams = append(fams, explore.Family{Name: "strict-mode-final-values-empty-or-nil", Count: int64(len(svals)*len(sroutes) + len(sfields)*2), Run: func(i int64, r *explore.Rec) {
		var src, what string
		var bind map[string]any
		var isNil bool
		if int(i) < len(svals)*len(sroutes) {
			v, rt := svals[int(i)/len(sroutes)], sroutes[int(i)%len(sroutes)]
			src, bind, isNil, what = rt.src, rt.bind(v.build()), v.isNil, v.name+" reached "+rt.name
		} else {
			j := int(i) - len(svals)*len(sroutes)
			f, ptr := sfields[j/2], j%2 == 1
			src, isNil, what = "{{ h."+f.field+" }}", f.isNil, "zero-valued struct field "+f.field
			bind = map[string]any{"h": strictHolder{}}
			if ptr {
				bind["h"], what = &strictHolder{}, what+" through a pointer"
			}
		}
		r.Eval()
		r.Transition()
		r.Trace()
		od, os := Render(c08.eng, src, bind), Render(c08.strict, src, bind)
		desc := map[string]any{"template": src, "value": what}
		r.Class(fmt.Sprintf("strict-final/%v/%s", isNil, os.Class()))
		r.State("strict-final")
		switch {
		case od.Panic != nil || od.Err != nil || os.Panic != nil:
			r.Violation("lookup-fails:strict-final-value", desc, "a value", od.String()+" / strict: "+os.String())
		case isNil && od.Out != "":
			r.Violation("wrong-value:nil-final-value", desc, `""`, od.String())
		case isNil && os.Err == nil:
			r.Violation("strict-nil-not-error:final-value", desc, "an error (the final value is nil)", os.String())
		case !isNil && (os.Err != nil || os.Out != od.Out):
			r.Violation("strict-error-for-a-value-that-is-not-nil", desc, "as without strict variables: "+od.String(), os.String())
		}
	}})

	// (E4) filters belong to the engine they were registered on: two engines register DIFFERENT functions under
	// the same names (and one name on one engine only); the same sources are parsed and rendered on both, in
	// both orders, in one process - whatever is remembered between parses must not cross engines.
	mkOwn := func(tag string, withOnly bool) *liquid.Engine {
		e := liquid.NewEngine()
		e.RegisterFilter("own", func(v any) string { return tag + ":" + fmt.Sprint(v) })
		e.RegisterFilter("own2", func(v any, n func(int) int) string { return fmt.Sprintf("%s%d:%v", tag, n(7), v) })
		if withOnly {
			e.RegisterFilter("only_here", func(v any) string { return "only:" + fmt.Sprint(v) })
		}
		return e
	}
	engA, engB := mkOwn("A", true), mkOwn("B", false)
	ownSrc := []string{
		"{{ x | own }}", "{{ x|own }}", "{{ x | own | upcase }}", "{{ x | upcase | own }}", "{% assign y = x | own %}{{ y }}",
		"{% assign t = x | own %}{% if t == 'A:v' %}isA{% else %}notA{% endif %}", "{{ x | own2 }}|{{ x | own2: 3 }}", "{% for c in l %}{{ c | own }},{% endfor %}",
		"{{ 'lit' | own }}", "{{ l[0] | own }}{{ m.k | own }}", "{% capture c %}{{ x | own }}{% endcapture %}{{ c | own }}",
		"{{ x | only_here }}", "{{ x | own | only_here }}", "{% assign z = x | only_here %}{{ z }}",
	}
	fams = append(fams, explore.Family{Name: "filters-belong-to-their-engine", Count: int64(len(ownSrc) * 2), Run: func(i int64, r *explore.Rec) {
		src, bFirst := ownSrc[int(i)/2], int(i)%2 == 1
		bind := func() map[string]any {
			return map[string]any{"x": "v", "l": []any{"p", "q"}, "m": map[string]any{"k": "w"}}
		}
		want := func(tag string) (string, bool) { // expected output, or failure when only_here is missing
			if strings.Contains(src, "only_here") && tag == "B" {
				return "", false
			}
			rep := strings.NewReplacer("{{ x | own }}", tag+":v", "{{ x|own }}", tag+":v", "{{ x | own | upcase }}", strings.ToUpper(tag+":v"), "{{ x | upcase | own }}", tag+":V",
				"{% assign y = x | own %}{{ y }}", tag+":v", "{{ x | own2 }}|{{ x | own2: 3 }}", tag+"7:v|"+tag+"3:v", "{% for c in l %}{{ c | own }},{% endfor %}", tag+":p,"+tag+":q,",
				"{{ 'lit' | own }}", tag+":lit", "{{ l[0] | own }}{{ m.k | own }}", tag+":p"+tag+":w", "{% capture c %}{{ x | own }}{% endcapture %}{{ c | own }}", tag+":"+tag+":v",
				"{{ x | only_here }}", "only:v", "{{ x | own | only_here }}", "only:"+tag+":v", "{% assign z = x | only_here %}{{ z }}", "only:v")
			out := rep.Replace(src)
			if strings.HasPrefix(src, "{% assign t = x | own %}{% if") {
				out = map[string]string{"A": "isA", "B": "notA"}[tag]
			}
			return out, true
		}
		order := []struct {
			tag string
			e   *liquid.Engine
		}{{"A", engA}, {"B", engB}, {"A", engA}}
		if bFirst {
			order[0], order[1], order[2] = order[1], order[0], order[1]
		}
		for step, en := range order {
			r.Eval()
			r.Transition()
			r.Trace()
			o := Render(en.e, src, bind())
			exp, ok := want(en.tag)
			desc := map[string]any{"template": src, "engine": en.tag, "step": step, "order_B_first": bFirst}
			switch {
			case o.Panic != nil:
				r.Violation("filter-crosses-engines:panic", desc, "output or error", o.String())
			case !ok && o.Err == nil:
				r.Violation("filter-crosses-engines:unknown-filter-accepted", desc, "an error: only_here is not registered on engine B", o.String())
			case ok && (o.Err != nil || o.Out != exp):
				r.Violation("filter-crosses-engines", desc, exp, o.String())
			}
		}
		r.Class("own-engine")
	}})

	stdf := StdFilters()
	// (E5) every argument of a pipeline step is evaluated (exactly as doing the steps one at a time through assign): an
	// argument whose own evaluation fails - an unknown filter, a division by zero inside a parenthesised pipeline -
	// fails the whole object, in every argument position of every standard filter, whatever the receiver (also the
	// receivers for which the filter can answer without looking at its arguments: "", [], nil)
	badArgs := []string{"(x | no_such_filter)", "(1 | divided_by: 0)", "(x | upcase: 1, 2)"}
	badRecv := []string{`""`, `"abc"`, "e", "nothing", "3", "l"}
	fams = append(fams, explore.Family{Name: "failing-argument-fails-the-pipeline", Count: int64(len(stdf)), Run: func(i int64, r *explore.Rec) {
		f := stdf[i]
		n, known := c08Arity[f]
		if c08FilterArity != nil {
			if m, variadic, ok := c08FilterArity(c08.eng, f); ok && !variadic {
				n, known = m, true
			}
		}
		if !known || n == 0 {
			r.Class("failing-argument/no-parameters")
			return
		}
		for pos := 0; pos < n; pos++ {
			for _, bad := range badArgs {
				argv := make([]string, n)
				for j := range argv {
					argv[j] = "1"
				}
				argv[pos] = bad
				for _, rc := range badRecv {
					src := "{{ " + rc + " | " + f + ": " + strings.Join(argv, ", ") + " }}"
					r.Eval()
					r.Trace()
					o := Render(c08.eng, src, map[string]any{"x": "v", "e": []any{}, "l": []any{1, 2}})
					if o.Panic != nil || o.Err == nil {
						r.Violation("failing-argument-ignored:"+f, map[string]any{"template": src, "argument_position": pos}, "an error (the argument cannot be evaluated)", o.String())
					}
				}
			}
		}
		r.Class("failing-argument/" + strconv.Itoa(n))
	}})

	// (E3) unknown filter; one argument too many, for every standard filter
	fams = append(fams, explore.Family{Name: "unknown-filter-and-arity", Count: int64(len(stdf) + 1), Run: func(i int64, r *explore.Rec) {
		r.Eval()
		r.Transition()
		r.Trace()
		if int(i) == len(stdf) {
			for _, src := range []string{"{{ a | no_such_filter }}", "{{ a | first | no_such_filter: 1 }}", "{% assign v = a | no_such_filter %}", "{% if a | no_such_filter %}x{% endif %}"} {
				o := Render(c08.eng, src, c08Bind())
				if o.Err == nil {
					r.Violation("unknown-filter-accepted", map[string]any{"template": src}, "an error", o.String())
				}
			}
			r.Class("unknown-filter")
			return
		}
		f := stdf[i]
		n, known := c08Arity[f]
		if c08FilterArity != nil {
			if m, variadic, ok := c08FilterArity(c08.eng, f); ok {
				if variadic {
					r.Class("arity/variadic")
					return
				}
				n, known = m, true
			}
		}
		if !known {
			r.Class("arity/unknown-filter-in-tree:" + f)
			return
		}
		// the surplus arguments: a number, nil (an undefined name, the literal), an empty string, a list - one, two or three of them
		for _, extra := range []string{"1", "nope", "nil", `""`, "a", "false"} {
			for surplus := 1; surplus <= 3; surplus++ {
				argv := make([]string, n+surplus)
				for j := range argv {
					argv[j] = "1"
					if j >= n {
						argv[j] = extra
					}
				}
				for _, recvSrc := range []string{`"2001-02-03"`, "a", "3"} {
					src := "{{ " + recvSrc + " | " + f + ": " + strings.Join(argv, ", ") + " }}"
					r.Eval()
					o := Render(c08.eng, src, c08Bind())
					if o.Panic != nil || o.Err == nil {
						r.Violation("too-many-arguments-accepted:"+f, map[string]any{"template": src, "filter_takes": n}, "an error (more arguments than the filter takes)", o.String())
					}
				}
			}
		}
		r.Class("arity/" + strconv.Itoa(n))
	}})

	// (E4)/(3) spelling: whitespace in every gap, quote style, dot vs bracket
	type spell struct {
		parts []string // gaps go between consecutive parts
		pre   string
		post  string
	}
	spells := []spell{
		{[]string{"{{", "m.b", "|", "plus:", "i", "|", "append:", `"x"`, "}}"}, "", ""},
		{[]string{"{{", "a", "[", "1", "]", "[", "0", "]", "}}"}, "", ""},
		{[]string{"{{", `"Ab c"`, "|", "slice:", "1", ",", "2", "}}"}, "", ""},
		{[]string{"{%", "assign", "v", "=", "a", "|", "join:", `"-"`, "%}"}, "", "{{ v }}"},
		{[]string{"{%", "if", "m.b", "==", "1", "and", "s", "%}"}, "", "T{% endif %}"},
		{[]string{"{%", "for", "x", "in", "a", "limit:", "2", "%}"}, "", "{{ x }},{% endfor %}"},
		{[]string{"{{", "(", "1", "..", "3", ")", "|", "join", "}}"}, "", ""},
	}
	// which gaps may be empty: a gap between two word-like parts needs at least one space
	wordy := func(s string) bool {
		c := s[len(s)-1]
		return c == '_' || c >= '0' && c <= '9' || c >= 'a' && c <= 'z' || c >= 'A' && c <= 'Z'
	}
	wordyStart := func(s string) bool {
		c := s[0]
		return c == '_' || c >= '0' && c <= '9' || c >= 'a' && c <= 'z' || c >= 'A' && c <= 'Z' || c == '-' || c == '.'
	}
	for si, sp := range spells {
		sp := sp
		k := len(sp.parts) - 1
		cnt := int64(1)
		for j := 0; j < k; j++ {
			cnt *= int64(len(c08Gaps))
		}
		base := sp.pre + strings.Join(sp.parts, " ") + sp.post
		fams = append(fams, explore.Family{Name: fmt.Sprintf("spelling-%d", si), Count: cnt, Run: func(i int64, r *explore.Rec) {
			rx := radix{i}
			var sb strings.Builder
			sb.WriteString(sp.pre)
			for j, p := range sp.parts {
				sb.WriteString(p)
				if j < k {
					g := c08Gaps[rx.next(len(c08Gaps))]
					if g == "" && (wordy(p) && wordyStart(sp.parts[j+1]) || p == "{%" || strings.HasSuffix(p, ":") && false) {
						g = " "
					}
					// a tag name must be followed by whitespace
					if g == "" && j == 1 && sp.parts[0] == "{%" {
						g = " "
					}
					sb.WriteString(g)
				}
			}
			sb.WriteString(sp.post)
			src := sb.String()
			r.Eval()
			r.Eval()
			r.Transition()
			o, ob := Render(c08.eng, src, c08Bind()), Render(c08.eng, base, c08Bind())
			r.Class("spelling/" + o.Class())
			if ob.Err != nil || ob.Panic != nil {
				panic(explore.BaselineFailure{Msg: "harness: base spelling fails: " + base + ": " + ob.String()})
			}
			if o.Panic != nil || o.Err != nil || o.Out != ob.Out {
				r.Violation("whitespace-changes-meaning", map[string]any{"template": src, "canonical": base}, ob.String(), o.String())
			}
			if r.WantSample() {
				r.Sample(map[string]any{"template": src, "observed": o.String()})
			}
		}})
	}
	// literals denote themselves: every string of <=3|4 symbols over {a, b, space, tab, newline, |, :} as a
	// double- and single-quoted literal, as a filter argument and as a bracket key, all in one process
	litAlpha := []string{"a", " ", "\t", "\n", "b", "|", ":", "\\", "n", "t"} // a backslash is an ordinary character of a literal: "\n" is two characters
	litN := 3
	if thorough {
		litN = 4
	}
	fams = append(fams, explore.Family{Name: "string-literals", Count: seqCount(len(litAlpha), litN), Run: func(i int64, r *explore.Rec) {
		lit := joinSyms(litAlpha, seqAt(len(litAlpha), i), "")
		for _, form := range []struct{ src, want string }{
			{`{{ "` + lit + `" }}`, lit},
			{`{{ '` + lit + `' }}`, lit},
			{`{{ "<" | append: "` + lit + `" | append: '>' }}`, "<" + lit + ">"},
			{`{{ keyed["` + lit + `"] }}`, "K" + lit},
			{`{% if "` + lit + `" == lit %}same{% endif %}`, "same"},
			{`{% assign v = '` + lit + `' %}[{{ v }}]`, "[" + lit + "]"},
		} {
			r.Eval()
			r.Transition()
			o := Render(c08.eng, form.src, map[string]any{"keyed": map[string]any{lit: "K" + lit}, "lit": lit})
			if o.Panic != nil || o.Err != nil || o.Out != form.want {
				r.Violation("literal-does-not-denote-itself", map[string]any{"template": form.src}, strconv.Quote(form.want), o.String())
			}
		}
		r.Trace()
		r.Class("string-literal/" + strconv.Itoa(len(lit)))
	}})
	// two (or three) literals in ONE expression, each holding what would be syntax outside a literal: the other
	// quote character, pipes and colons with blanks around them, brackets, commas, range dots, braces
	pieces := []string{"What's", `say "x"`, " | Blog : A", "| join : x", "a|b:c", "x | y", ": |", "it's | a : b", `"`, "'", "[k]", `m["a"]`, "(1..2)", "a , b", "{", "} -", "a | upcase", "| append: 'q'", `| append : "q"`, " "}
	quoted := func(p string) string {
		if strings.Contains(p, `"`) {
			return "'" + p + "'"
		}
		return `"` + p + `"`
	}
	fams = append(fams, explore.Family{Name: "several-literals-in-one-expression", Count: int64(len(pieces) * len(pieces)), Run: func(i int64, r *explore.Rec) {
		p1, p2 := pieces[int(i)/len(pieces)], pieces[int(i)%len(pieces)]
		if strings.Contains(p1, `"`) && strings.Contains(p1, "'") || strings.Contains(p2, `"`) && strings.Contains(p2, "'") {
			return // no quote character left to write it with
		}
		l1, l2 := quoted(p1), quoted(p2)
		eq := "N"
		if p1 == p2 {
			eq = "E"
		}
		for _, form := range []struct{ src, want string }{
			{"{{ " + l1 + " | append: " + l2 + " }}", p1 + p2},
			{"{{ " + l2 + " | prepend: " + l1 + " }}", p1 + p2},
			{"{% if " + l1 + " == " + l2 + " %}E{% else %}N{% endif %}", eq},
			{"{{ keyed[" + l1 + "] | append: " + l2 + " }}", "K" + p1 + p2},
			{"{% assign v = " + l1 + " | append: " + l2 + " %}[{{ v }}]", "[" + p1 + p2 + "]"},
			{"{{ " + l1 + " | append: " + l2 + " | append: " + l1 + " }}", p1 + p2 + p1},
			{"{{ " + l1 + " | append : " + l2 + " }}", p1 + p2}, // (blanks before a filter's colon, if accepted, change nothing)
		} {
			r.Eval()
			r.Transition()
			o := Render(c08.eng, form.src, map[string]any{"keyed": map[string]any{p1: "K" + p1}})
			if strings.Contains(form.src, "append : ") && o.Err != nil {
				continue // whether blanks may precede the colon is not stated
			}
			if o.Panic != nil || o.Err != nil || o.Out != form.want {
				r.Violation("literal-does-not-denote-itself:several-literals", map[string]any{"template": form.src}, strconv.Quote(form.want), o.String())
			}
		}
		r.Trace()
		r.Class("several-literals")
	}})
	// dot vs bracket, quote style
	eqs := [][]string{
		{"{{ m.b }}", `{{ m["b"] }}`, `{{ m['b'] }}`, "{{ m[s] }}"},
		{"{{ m.m.b }}", `{{ m["m"]["b"] }}`, `{{ m.m["b"] }}`, `{{ m['m'].b }}`},
		{"{{ a[2].b }}", `{{ a[2]["b"] }}`, `{{ a[-2].b }}`},
		{"{{ d.b }}", `{{ d["b"] }}`}, {"{{ d.l.first }}", "{{ d.l[0] }}", `{{ d["l"].first }}`},
		{`{{ "x" | append: "y" }}`, `{{ 'x' | append: 'y' }}`, `{{ "x" | append: 'y' }}`},
		{"{{ a.first }}", "{{ a[0] }}"}, {"{{ a.last }}", "{{ a[-1] }}", "{{ a[3] }}"},
	}
	fams = append(fams, explore.Family{Name: "dot-bracket-quote", Count: int64(len(eqs)), Run: func(i int64, r *explore.Rec) {
		var first Outcome
		for j, src := range eqs[i] {
			r.Eval()
			o := Render(c08.eng, src, c08Bind())
			if j == 0 {
				first = o
				if o.Out == "" || o.Err != nil {
					r.Violation("spelling-base-empty", map[string]any{"template": src}, "a value", o.String())
				}
			} else if o.Sig() != first.Sig() {
				r.Violation("spelling-changes-meaning", map[string]any{"template": src, "canonical": eqs[i][0]}, first.String(), o.String())
			}
		}
		r.Class("dot-bracket")
	}})
	return fams
}

func c08Pipeline(r *explore.Rec, x string, steps []c08Step) {
	pipe := x
	var dec strings.Builder
	prev := x
	for j, s := range steps {
		pipe += " | " + s.src
		t := "t" + strconv.Itoa(j+1)
		dec.WriteString("{% assign " + t + " = " + prev + " | " + s.src + " %}")
		prev = t
	}
	s1 := "{{ " + pipe + " }}"
	s2 := dec.String() + "{{ " + prev + " }}"
	r.Eval()
	r.Eval()
	r.Transition()
	r.Trace()
	o1, o2 := Render(c08.eng, s1, c08Bind()), Render(c08.eng, s2, c08Bind())
	r.Class("pipeline/" + o1.Class())
	r.State("pipeline:" + strconv.Itoa(len(steps)))
	if o1.Panic != nil || o2.Panic != nil || (o1.Err != nil) != (o2.Err != nil) || o1.Out != o2.Out {
		r.Violation("pipeline-law", map[string]any{"pipeline": s1, "decomposed": s2, "bindings": c08BindDesc}, o2.String(), o1.String())
	}
	if r.WantSample() {
		r.Sample(map[string]any{"pipeline": s1, "decomposed": s2, "observed": o1.String()})
	}
}

var _ = values.NewRange

func init() {
	explore.Register(&explore.Prop{
		ID:    "C08",
		Level: "model_checking",
		Rule: "lookup grid: arrays of length 0..5 in 4 representations x index -7..7 (literal, variable, nested in array and map) x 6 non-integer indices x first/last/size; 7 maps x 12 access forms; every scalar x 9 access forms; " +
			"all lookup trees of depth <=2 (quick) / <=3 over 16 atoms, 8 property names and index expressions, in default and strict-variables mode, against reference lookup rules; " +
			"scaled: arrays of 6..4097 elements indexed at the boundaries, property chains up to 300 deep, pipelines of up to 130 steps; pipeline law over 17 receivers x all chains of 2 (quick) / 3 filter steps from ~100 steps; argument evaluation in current bindings; unknown filter and one-argument-too-many for every standard filter; " +
			"whitespace from {'', ' ', newline, tab+space} in every gap of 7 tag/object forms (4^k exhaustive), dot vs bracket and quote style; " +
			"state = construct/depth; transition = one expression rendered; trace = expression validated against the reference",
		Assumptions: []string{
			"unspecified: float array indices, string.size/first/last as properties, indexing a string, array[\"first\"], map[\"size\"] without such key, indexing or properties of ranges",
			"filter semantics are not modelled here (C15-C17 do that): pipelines are checked by the assign-decomposition law only",
			"the maximum arity of each standard filter is read from its registered Go function through a build-time overlay that only adds an accessor (tools/overlay.sh); the table in mc/props/c08.go is the fallback",
		},
		Setup: func(string) {
			c08.eng = liquid.NewEngine()
			c08.strict = liquid.NewEngine()
			c08.strict.StrictVariables()
		},
		Families: c08Families,
		Bound: func(tier string) string {
			if tier == "thorough" {
				return "lookup trees depth<=3; pipelines of 3 steps; whitespace 4^k for k<=8"
			}
			return "lookup trees depth<=2; pipelines of 2 steps; whitespace 4^k for k<=8"
		},
	})
}
