package props

import (
	"bytes"
	"crypto/sha1"
	"fmt"
	"os"
	"os/exec"
	"sort"
	"strings"
	"time"
	"verifmc/univ"

	yaml "gopkg.in/yaml.v2"

	"github.com/osteele/liquid"
	"github.com/osteele/liquid/render"
	"verifmc/explore"
)

// C02 — rendering is deterministic across runs, re-parses, engines and entry points.

// The runtime seam (build tag rtseam + tools/rtseam.sh overlay) sets these.
var (
	mapSeamAvailable bool
	mapSeamBegin     = func(choices []int) {}
	mapSeamEnd       = func() []uint32 { return nil }
	mapSeamPinHash   = func(on bool) {}
)

var c02MapTemplates = []string{
	"{% for kv in m %}{{ kv[0] }}={{ kv[1] }},{% endfor %}",
	"{% for kv in m reversed %}{{ kv[0] }},{% endfor %}|{% for kv in m limit: 2 %}{{ kv[0] }},{% endfor %}|{% for kv in m offset: 1 %}{{ kv[0] }},{% endfor %}",
	"{% tablerow kv in m cols: 2 %}{{ kv[0] }}{% endtablerow %}",
	"{{ m }}",
	"{{ m | first }}|{{ m | last }}",
	"{{ m | join: ',' }}",
	"{{ m | sort | join: ',' }}|{{ m | sort | first }}",
	"{{ m | reverse | join: ',' }}|{{ m | size }}",
	"{{ m | uniq | join: ',' }}|{{ m | compact | join: ',' }}",
	"{{ m | concat: m | join: ',' }}|{{ m | map: 'x' | size }}",
	"{% for x in arr %}[{% for kv in x %}{{ kv[0] }}{% endfor %}]{% endfor %}",
	"{% assign mm = m %}{% for kv in mm %}{{ kv[1] }}{% endfor %}{{ mm | json }}{{ mm | inspect }}",
	"{% for k in km %}{{ k }}={{ km[k] }},{% endfor %}",
	"{% for kv in ms %}{{ kv[0] }}={{ kv[1] }},{% endfor %}{{ ms.k1 }}{{ ms.size }}",
	"{% for kv in mi %}{{ kv[0] }}={{ kv[1] }},{% endfor %}{{ mi | join }}",
	`{% include "` + c02IncName + `" %}`,
	"{% capture c %}{% for kv in m %}{{ kv[0] }}{% endfor %}{% endcapture %}{{ c | upcase }}{% if m contains 'k1' %}T{% endif %}{{ m.k1 }}{{ m.size }}",
	"{% for kv in m %}{% for kv2 in m %}{{ kv2[0] }}{% break %}{% endfor %}{% endfor %}",
	"{{ nested.inner | join: ',' }}{% for kv in nested.inner %}{{ kv[0] }}{% endfor %}{{ nested }}",
	// the map handed to application filters with typed parameters (keys converted to strings: 1 and "1" meet)
	"{{ m | own_smap }}|{{ mi | own_smap }}|{{ m | own_strs }}|{{ mi | own_imap }}|{{ km | own_smap }}",
	// map entries that reach one another (a ring of struct pointers, each also holding the first): whatever is
	// done per entry must not depend on which entry was visited first
	"{{ ring | json }}|{{ ring }}|{% for kv in ring %}{{ kv[0] }}:{{ kv[1].Title }}>{{ kv[1].Next.Title }},{% endfor %}|{{ shared | json }}|{{ shared }}|{{ shared | inspect }}",
}

const c02IncName = "c02_included.liquid"

// c02ErrTemplates: failures whose message or outcome an implementation might compute by walking one of the
// engine's own maps: unknown filters/tags at edit distance 1-2 from several registered names, missing includes
// next to cached names, arity errors, plus successful uses of many filters in one template.
var c02ErrTemplates = []string{
	"{{ s | url_code }}", "{{ s | xstrip }}", "{{ s | strip_ }}", "{{ s | sor }}", "{{ s | ap }}", "{{ s | remove_ }}", "{{ s | upcas }}", "{{ l | firs }}",
	"{{ l | joi }}", "{{ 1 | plu }}", "{{ s | replace_ }}", "{{ s | truncat }}", "{{ s | escape_onc }}", "{{ s | own_a }}", "{{ s | own }}", "{{ s | nosuchfilter_at_all }}",
	"{% iff s %}{% endiff %}", "{% fo i in l %}{% endfo %}", "{% endd %}", "{% assignn x = 1 %}", "{% includes 'x' %}", "{% cas s %}{% endcas %}", "{% own_tag_ %}", "{% capturee c %}{% endcapturee %}",
	"{% endfor %}", "{% else %}", "{% if s %}{% endfor %}", "{% for i in l %}{% endif %}", "{% unless %}{% endunless %}",
	`{% include "c02_include.liquid" %}`, `{% include "c02_included" %}`, `{% include "c02_other.liquid" %}`, "{% include 12 %}",
	"{{ s | append }}", "{{ s | append: 1, 2, 3 }}", "{{ s | upcase: 1 }}", "{{ l | sort: 1, 2 }}", "{{ 1 | divided_by: 0 }}", "{{ s | plus: 'x' }}",
	"{{ s | upcase | downcase | capitalize | append: 'x' | prepend: 'y' | size | plus: 1 | minus: 1 | times: 2 | divided_by: 2 | round | floor | ceil | abs }}",
}

// permutations of 0..n-1 (all for n<=4; cyclic shifts + reversal beyond)
func c02Orders(n int) [][]int {
	id := make([]int, n)
	for i := range id {
		id[i] = i
	}
	if n <= 4 {
		var out [][]int
		var perm func(a []int, k int)
		perm = func(a []int, k int) {
			if k == len(a) {
				out = append(out, append([]int{}, a...))
				return
			}
			for i := k; i < len(a); i++ {
				a[k], a[i] = a[i], a[k]
				perm(a, k+1)
				a[k], a[i] = a[i], a[k]
			}
		}
		perm(id, 0)
		return out
	}
	var out [][]int
	for s := 0; s < n; s++ {
		o := make([]int, n)
		for i := range o {
			o[i] = (i + s) % n
		}
		out = append(out, o)
	}
	rev := make([]int, n)
	for i := range rev {
		rev[i] = n - 1 - i
	}
	return append(out, rev)
}

// Key styles: the canonical order of a map must not depend on iteration order whatever the keys look like.
//
//	0: k1..kn
//	1: strings that look like numbers mixed with strings that do not, empty, blank, signs, non-ASCII
//	2: keys of mixed Go types in a map[any]any (ints of several widths, floats, bools, strings)
//	3: keys that are DISTINCT Go values but EQUAL Liquid values (1, int64(1), 1.0, uint8(1); "k" and a named string "k")
//	4: keys that are neither numbers nor strings: times - every third one the SAME instant read in another zone (distinct
//	   Go values, distinct printed forms, equal under Time.Equal/Before) - in a map[any]any
const c02KeyStyles = 5

var c02TrickyKeys = []string{"10", "9", "2xx", "404", "1000", "a", "B", "", "1e3", "-1", "01", "k", " ", "é", "A", "b", "00", "2",
	"x2", "0x1f", "1_0", "٣", "10 ", "+5", "5.0", "NaN", "b2"}

var c02MixedKeys = []any{1, "1", 2.5, true, "a", int8(3), uint(4), "10", 10, false, int64(-1), "B", 0, "", float32(0.5), uint8(7), "b",
	100, "2", 2, "true", int16(9), 1000, "k", uint64(12), -7, "é"}

var c02EqualKeys = func() []any {
	var ks []any
	for v := 0; v < 5; v++ {
		ks = append(ks, v, int64(v), float64(v), uint8(v), int32(v))
	}
	return append(ks, "k", univ.NamedString("k"))
}()

var c02TimeKeys = func() []any {
	zones := []*time.Location{time.UTC, time.FixedZone("CET", 3600), time.FixedZone("EST", -5*3600)}
	var ks []any
	for i := 0; i < 27; i++ {
		ks = append(ks, time.Date(2024, 3, 1+(i/3)%4, 12, 0, i/12, 0, time.UTC).In(zones[i%3]))
	}
	return ks
}()

func c02Bindings(n int, order []int) map[string]any { return c02BindingsK(n, order, 0) }

func c02BindingsK(n int, order []int, style int) map[string]any {
	skey := func(i int) string {
		if style == 0 {
			return fmt.Sprintf("k%d", i+1)
		}
		return c02TrickyKeys[i]
	}
	akey := func(i int) any {
		if style == 2 {
			return c02MixedKeys[i]
		}
		if style == 3 {
			return c02EqualKeys[i]
		}
		if style == 4 {
			return c02TimeKeys[i]
		}
		return skey(i)
	}
	var m any
	ms0 := map[string]any{}
	ma0 := map[any]any{}
	mi := map[string]int{}
	km := map[string]any{}
	inner := map[string]any{}
	var ms yaml.MapSlice
	for _, i := range order {
		ms0[skey(i)] = i + 1
		ma0[akey(i)] = i + 1
		mi[skey(i)] = i + 1
		km[skey(i)] = i + 1
		inner[skey(i)] = i + 1
	}
	m = ms0
	if style >= 2 {
		m = ma0
	}
	for i := 0; i < n; i++ {
		ms = append(ms, yaml.MapItem{Key: akey(i), Value: i + 1})
	}
	arr := []any{}
	for j := 0; j < 2; j++ {
		x := map[string]any{}
		for _, i := range order {
			x[skey(i)] = j
		}
		arr = append(arr, x)
	}
	ring, shared := map[string]*c02Node{}, map[string]any{}
	nodes := make([]*c02Node, n)
	for i := range nodes {
		nodes[i] = &c02Node{Title: fmt.Sprintf("n%d", i+1)}
	}
	common := &c02Node{Title: "common", Next: &c02Node{Title: "tail"}}
	for i := range nodes {
		nodes[i].Next = nodes[(i+1)%n]
	}
	for _, i := range order {
		ring[skey(i)] = nodes[i]
		shared[skey(i)] = []any{common, &c02Node{Title: fmt.Sprintf("own%d", i+1), Next: common}}
	}
	// the top-level map itself is built in that order too
	b := map[string]any{}
	items := []struct {
		k string
		v any
	}{{"m", m}, {"mi", mi}, {"km", liquid.IterationKeyedMap(km)}, {"ms", ms}, {"arr", arr}, {"nested", map[string]any{"inner": inner}}, {"ring", ring}, {"shared", shared}}
	for j := range items {
		it := items[(j+order[0])%len(items)]
		b[it.k] = it.v
	}
	return b
}

var c02 struct {
	eng  *liquid.Engine
	pool []c02PoolItem
}

func c02Engine() *liquid.Engine {
	e := liquid.NewEngine()
	if _, err := e.ParseTemplateAndCache([]byte("inc:{% for kv in m %}{{ kv[0] }}{% endfor %}{{ m | first }}"), c02IncName, 1); err != nil {
		panic(explore.BaselineFailure{Msg: "harness: " + err.Error()})
	}
	// a few registrations and cache entries of the application's own, with names close to each other
	for _, n := range []string{"own", "own_b", "own_c", "owm"} {
		n := n
		e.RegisterFilter(n, func(v any) string { return n })
	}
	// application filters with typed parameters: the call layer converts the bound map / list to them
	e.RegisterFilter("own_smap", func(m map[string]any) string {
		ks := make([]string, 0, len(m))
		for k, v := range m {
			ks = append(ks, fmt.Sprintf("%s=%v", k, v))
		}
		sort.Strings(ks)
		return strings.Join(ks, ",")
	})
	e.RegisterFilter("own_strs", func(l []string) string { return strings.Join(l, ",") })
	e.RegisterFilter("own_imap", func(m map[string]int) int {
		n := 0
		for _, v := range m {
			n += v
		}
		return n
	})
	for _, n := range []string{"own_tag", "own_tag2", "own_tagx"} {
		n := n
		e.RegisterTag(n, func(c render.Context) (string, error) { return n, nil })
	}
	for _, n := range []string{"c02_other1.liquid", "c02_other2.liquid", "c02_include_.liquid"} {
		if _, err := e.ParseTemplateAndCache([]byte("cached "+n), n, 1); err != nil {
			panic(explore.BaselineFailure{Msg: "harness: " + err.Error()})
		}
	}
	return e
}

func answersAt(logEntry uint32) int {
	count, B := int(logEntry>>8), int(logEntry&0xff)
	if B == 0 {
		if count > 8 {
			count = 8
		}
		return count
	}
	if B > 3 {
		B = 3
	}
	return (1 << uint(B)) * 8
}

// c02Explore runs the deviation-bounded DFS over map-iteration choices for one (template, bindings).
func c02Explore(r *explore.Rec, tpl *liquid.Template, mk func() map[string]any, base string, bound int, desc func(choices []int) any) (execs int) {
	return c02ExploreF(r, func(b map[string]any) (string, liquid.SourceError) {
		out, err := tpl.Render(b)
		return string(out), err
	}, mk, base, bound, desc)
}

// c02ExploreF is c02Explore for an arbitrary operation (e.g. parse + render) performed under the seam.
func c02ExploreF(r *explore.Rec, op func(b map[string]any) (string, liquid.SourceError), mk func() map[string]any, base string, bound int, desc func(choices []int) any) (execs int) {
	run := func(choices []int) (string, []uint32) {
		b := mk()
		mapSeamBegin(choices)
		var o Outcome
		o.Panic = explore.Safe(func() {
			out, err := op(b)
			o.Out, o.Err = out, err
		})
		log := mapSeamEnd()
		return o.Sig(), log
	}
	var rec func(prefix []int, parentLog []uint32, devs int)
	rec = func(prefix []int, parentLog []uint32, devs int) {
		sig, log := run(prefix)
		execs++
		explore.Heartbeat()
		r.Eval()
		r.Trace()
		// replaying a prefix must reproduce the same choice points
		for i := 0; i < len(prefix) && i < len(parentLog); i++ {
			if i >= len(log) || log[i] != parentLog[i] {
				panic(fmt.Sprintf("harness: choice-point log diverged while replaying prefix %v: %v vs %v", prefix, log, parentLog))
			}
		}
		var st strings.Builder
		for i := range prefix {
			fmt.Fprintf(&st, "%d.", prefix[i])
		}
		r.State(st.String())
		if sig != base {
			r.Violation("map-order-dependence", desc(prefix), base, sig)
			return
		}
		if devs >= bound {
			return
		}
		for i := len(prefix); i < len(log); i++ {
			for a := 1; a < answersAt(log[i]); a++ {
				next := make([]int, i+1)
				copy(next, prefix)
				next[i] = a
				r.Transition()
				rec(next, log, devs+1)
			}
		}
	}
	rec(nil, nil, 0)
	return
}

type c02PoolItem struct {
	src  string
	bind func() map[string]any
}

func c02Pool() []c02PoolItem {
	var pool []c02PoolItem
	corpusBind := func() map[string]any {
		return map[string]any{
			"x": 123, "obj": map[string]any{"a": 1}, "animals": []string{"zebra", "octopus", "giraffe", "Sally Snake"},
			"pages":     []map[string]any{{"category": "business"}, {}, {"category": "sports"}},
			"sort_prop": []map[string]any{{"weight": 1}, {"weight": 5}, {"weight": nil}},
			"page":      map[string]any{"title": "Introduction"}, "array": []string{"first", "second", "third"},
			"map": map[string]any{"a": 1}, "offset": 1, "limit": 2, "cols": 2, "loopmods": map[string]any{"limit": 2, "offset": 1, "cols": 2},
			"ar": []any{1, 2, 3}, "a": []any{1, nil, "x"}, "b": "b", "n": 2, "hash": map[string]any{"a": 1, "b": 2}, "fruits": []any{"apples", "oranges"},
			"products": []string{"Cool Shirt", "Alien Poster", "Batman Poster"}, "var": "value", "test": true,
			"ptr": &struct{ A int }{3}, "pstr": func() *string { s := "ps"; return &s }(), "l": []any{1, 2, 3}, "y": nil,
			"m": map[string]any{"k": "v", "j": []any{1, map[string]any{"z": 1, "y": 2}}},
		}
	}
	for _, s := range TestCorpus() {
		if strings.Contains(s, "now") || strings.Contains(s, "date") || strings.Contains(s, "include") {
			continue
		}
		pool = append(pool, c02PoolItem{s, corpusBind})
	}
	for _, s := range c20Templates {
		if strings.Contains(s, "include") || strings.Contains(s, "mytag") || strings.Contains(s, "myblock") {
			continue
		}
		pool = append(pool, c02PoolItem{s, func() map[string]any { return c20Bind() }})
	}
	// dates: only "now" may read the clock; every other word or spelling is a function of its input, down to the nanosecond
	for _, w := range []string{"today", "Today", "tomorrow", "yesterday", "midnight", "noon", "now ", " now", "NOW", "current", "1 day ago", "next week", "2006-01-02", "2006-01-02 15:04:05", "March 14, 2016", "0", "1152098955", ""} {
		w := w
		pool = append(pool, c02PoolItem{`{{ "` + w + `" | date: "%Y-%m-%d %H:%M:%S.%N %s" }}|{{ w | date: "%s.%N" }}|{{ w | date: "%c %L" }}`, func() map[string]any { return map[string]any{"w": w} }})
	}
	for _, s := range []string{"  \n\tleading whitespace {{ x }}", " {{ x }}", "\n{% raw %} r{% endraw %}", " ", "{{ pstr | prepend: '  ' }}", "{{ ptr }}{{ pstr }}", "{{ m }}{{ hash }}{{ pages }}", "{{ ptr.A }}{{ m.j }}", "{{ l | json }}{{ m | json }}{{ hash | inspect }}",
		"{{ a | sort | join }}{{ pages | map: 'category' | compact | join }}", "{% for p in pages %}{{ p }}{% endfor %}", "{{ no | fail }}", "{{ 1 | divided_by: 0 }}\n", "a\n{% if %}"} {
		pool = append(pool, c02PoolItem{s, corpusBind})
	}
	return pool
}

type bufWriter struct{ bytes.Buffer }

func c02EntryPoints(e *liquid.Engine, src string, b func() map[string]any) (names []string, sigs []string) {
	add := func(name string, f func() (string, liquid.SourceError)) {
		var o Outcome
		o.Panic = explore.Safe(func() { o.Out, o.Err = f() })
		names = append(names, name)
		sigs = append(sigs, o.Sig())
	}
	parse := func() (*liquid.Template, liquid.SourceError) { return e.ParseTemplate([]byte(src)) }
	add("Render", func() (string, liquid.SourceError) {
		t, err := parse()
		if err != nil {
			return "", err
		}
		out, err := t.Render(b())
		return string(out), err
	})
	add("RenderString", func() (string, liquid.SourceError) {
		t, err := parse()
		if err != nil {
			return "", err
		}
		return t.RenderString(b())
	})
	add("FRender", func() (string, liquid.SourceError) {
		t, err := parse()
		if err != nil {
			return "", err
		}
		var w bytes.Buffer
		if err := t.FRender(&w, b()); err != nil {
			return "", err
		}
		return w.String(), nil
	})
	add("ParseAndRender", func() (string, liquid.SourceError) {
		out, err := e.ParseAndRender([]byte(src), b())
		return string(out), err
	})
	add("ParseAndRenderString", func() (string, liquid.SourceError) { return e.ParseAndRenderString(src, b()) })
	add("ParseAndFRender", func() (string, liquid.SourceError) {
		var w bytes.Buffer
		if err := e.ParseAndFRender(&w, []byte(src), b()); err != nil {
			return "", err
		}
		return w.String(), nil
	})
	// the source buffer belongs to the caller: a parsed template keeps nothing of it (it may be pooled, reused or
	// overwritten right after the call) - same for the bytes handed to ParseTemplateAndCache
	add("Render after the caller overwrote its source buffer", func() (string, liquid.SourceError) {
		buf := []byte(src)
		t, err := e.ParseTemplate(buf)
		for i := range buf {
			buf[i] = '#'
		}
		if err != nil {
			return "", err
		}
		out, err := t.Render(b())
		if err != nil {
			return "", err
		}
		buf2 := append(buf[:0], []byte("{{ 'ANOTHER' }} template in the same buffer")...)
		t2, _ := e.ParseTemplateLocation(buf2, "other.html", 3)
		out2, err := t.Render(b())
		if t2 == nil || err != nil || string(out2) != string(out) {
			return "RE-RENDER AFTER BUFFER REUSE DIFFERS: " + string(out2), nil
		}
		return string(out), nil
	})
	// one parsed template rendered three times, shared bindings
	add("same template x3", func() (string, liquid.SourceError) {
		t, err := parse()
		if err != nil {
			return "", err
		}
		shared := b()
		var first string
		for k := 0; k < 3; k++ {
			out, err := t.Render(shared)
			if err != nil {
				return "", err
			}
			if k == 0 {
				first = string(out)
			} else if string(out) != first {
				return "RE-RENDER DIFFERS: " + string(out), nil
			}
		}
		return first, nil
	})
	// earlier activity must not matter: the same entry point right after a render that failed
	// half-way (partial output already produced) and after an unrelated successful render
	failing := "LEFT{{ 1 }}OVER{{ 2 }}{{ 1 | divided_by: 0 }}"
	other := "unrelated {{ 'output' | upcase }} {% for i in (1..3) %}{{ i }}{% endfor %}"
	trimEnd := "ends with a trim marker {% if true %}x{% endif -%}"
	trimFail := "fails right after a trim marker {{ 1 -}}{{ 1 | divided_by: 0 }}"
	for _, prior := range []string{failing, other, trimEnd, trimFail} {
		prior := prior
		tag := map[string]string{failing: "a failed render", other: "an unrelated render", trimEnd: "a render ending in a right-trim marker", trimFail: "a render failing after a right-trim marker"}[prior]
		add("Render after "+tag, func() (string, liquid.SourceError) {
			if pt, err := e.ParseString(prior); err == nil {
				pt.Render(b())
			}
			t, err := parse()
			if err != nil {
				return "", err
			}
			out, err := t.Render(b())
			return string(out), err
		})
		add("RenderString after "+tag, func() (string, liquid.SourceError) {
			if pt, err := e.ParseString(prior); err == nil {
				pt.RenderString(b())
			}
			t, err := parse()
			if err != nil {
				return "", err
			}
			return t.RenderString(b())
		})
		add("ParseAndRender after "+tag, func() (string, liquid.SourceError) {
			e.ParseAndRender([]byte(prior), b())
			out, err := e.ParseAndRender([]byte(src), b())
			return string(out), err
		})
		add("FRender after "+tag, func() (string, liquid.SourceError) {
			var w0, w bytes.Buffer
			e.ParseAndFRender(&w0, []byte(prior), b())
			if err := e.ParseAndFRender(&w, []byte(src), b()); err != nil {
				return "", err
			}
			return w.String(), nil
		})
	}
	add("fresh engine", func() (string, liquid.SourceError) {
		out, err := c02Engine().ParseAndRender([]byte(src), b())
		return string(out), err
	})
	return
}

func c02Families(tier string) []explore.Family {
	bound := 1
	sizes := []int{2, 3, 4, 8, 12, 13, 20, 27}
	if tier == "thorough" {
		bound = 3
	}
	type mcase struct {
		t, n  int
		order []int
		style int
	}
	var cases []mcase
	for t := range c02MapTemplates {
		for _, n := range sizes {
			for _, o := range c02Orders(n) {
				for st := 0; st < c02KeyStyles; st++ {
					cases = append(cases, mcase{t, n, o, st})
				}
			}
		}
	}
	var fams []explore.Family
	fams = append(fams, explore.Family{Name: "map-order", Count: int64(len(cases)), Run: func(i int64, r *explore.Rec) {
		c := cases[i]
		src := c02MapTemplates[c.t]
		tpl, err := c02.eng.ParseString(src)
		if err != nil {
			panic(explore.BaselineFailure{Msg: "harness: " + err.Error()})
		}
		if !mapSeamAvailable {
			r.Notes = append(r.Notes, "runtime map-iteration seam unavailable: map-order choices not explored")
			r.Incomplete = append(r.Incomplete, "map-order (no runtime seam)")
			return
		}
		// canonical outcome: identity insertion order, every choice 0
		id := make([]int, c.n)
		for j := range id {
			id[j] = j
		}
		mapSeamBegin(nil)
		var o Outcome
		o.Panic = explore.Safe(func() {
			out, err := tpl.Render(c02BindingsK(c.n, id, c.style))
			o.Out, o.Err = string(out), err
		})
		mapSeamEnd()
		base := o.Sig()
		b := bound
		if b > 2 && c.n > 4 {
			b = 2 // 16 answers per choice point: the third deviation level is explored for the small maps only
		}
		if c.n > 12 {
			b = 1 // 4-8 buckets x 8 offsets per choice point
		}
		execs := c02Explore(r, tpl, func() map[string]any { return c02BindingsK(c.n, c.order, c.style) }, base, b, func(choices []int) any {
			return map[string]any{"template": src, "map_entries": c.n, "insertion_order": c.order, "key_style": c.style, "iteration_start_choices": choices}
		})
		r.Class(fmt.Sprintf("t%d/n%d/k%d/%s", c.t, c.n, c.style, o.Class()))
		r.Count("map_order_executions", int64(execs))
		if r.WantSample() {
			r.Sample(map[string]any{"template": src, "map_entries": c.n, "insertion_order": c.order, "executions": execs, "outcome": trunc80(base)})
		}
	}})
	// the engine's OWN maps (filters, tags, block definitions, template cache) are iterated too - typically on
	// error paths (suggestions, listings). Failing and near-miss templates are parsed AND rendered under the seam,
	// every map-iteration start being a choice point, on an engine with a few extra registrations and cache entries.
	fams = append(fams, explore.Family{Name: "engine-map-order", Count: int64(len(c02ErrTemplates)), Run: func(i int64, r *explore.Rec) {
		src := c02ErrTemplates[i]
		if !mapSeamAvailable {
			r.Incomplete = append(r.Incomplete, "engine-map-order (no runtime seam)")
			return
		}
		op := func(b map[string]any) (string, liquid.SourceError) { return c02.eng.ParseAndRenderString(src, b) }
		mk := func() map[string]any {
			return map[string]any{"s": "v", "l": []any{1, 2}, "m": map[string]any{"a": 1, "b": 2}}
		}
		mapSeamBegin(nil)
		var o Outcome
		o.Panic = explore.Safe(func() { o.Out, o.Err = op(mk()) })
		mapSeamEnd()
		b := bound
		if b > 2 {
			b = 2
		}
		execs := c02ExploreF(r, op, mk, o.Sig(), b, func(choices []int) any {
			return map[string]any{"template": src, "iteration_start_choices": choices}
		})
		r.Class("engine-maps/" + o.Class())
		r.Count("map_order_executions", int64(execs))
	}})

	fams = append(fams, c02AddrFamily())
	// entry points x re-render x fresh parse x fresh engine x rebuilt bindings
	if c02.pool == nil {
		c02.pool = c02Pool()
	}
	pool := c02.pool
	fams = append(fams, explore.Family{Name: "entry-points", Count: int64(len(pool)), Run: func(i int64, r *explore.Rec) {
		it := pool[i]
		names, sigs := c02EntryPoints(c02.eng, it.src, it.bind)
		r.Eval()
		r.Trace()
		r.Transition()
		r.Count("entry_point_renders", int64(len(sigs)+2))
		for j := range sigs {
			if sigs[j] != sigs[0] {
				r.Violation("entry-point-differs:"+names[j], map[string]any{"template": it.src, "entry": names[j]}, names[0]+": "+sigs[0], sigs[j])
			}
		}
		r.Class("entry/" + sigs[0][:3])
		r.State("entry-points")
	}})
	if tier == "thorough" {
		cli := os.Getenv("VERIF_LIQUID_CLI")
		cliT := []string{"{{ VERIF_A }}", "{{ VERIF_A | upcase }}-{{ VERIF_B | size }}", "{% if VERIF_B == 'b c' %}yes{% endif %}{% for c in VERIF_A %}{{ c }}{% endfor %}",
			"{{ VERIF_MISSING }}|{{ VERIF_A | append: VERIF_B }}", "{{ VERIF_A | nosuchfilter }}", "{% if %}", "a\n{{ 1 | divided_by: 0 }}"}
		fams = append(fams, explore.Family{Name: "command-line-tool", Count: int64(len(cliT) * 2), Run: func(i int64, r *explore.Rec) {
			src, strict := cliT[int(i)/2], int(i)%2 == 1
			if cli == "" {
				r.Notes = append(r.Notes, "VERIF_LIQUID_CLI not set: command-line entry point not exercised")
				return
			}
			env := append(os.Environ(), "VERIF_A=Hello", "VERIF_B=b c")
			bind := map[string]any{}
			for _, e := range env {
				kv := strings.SplitN(e, "=", 2)
				bind[kv[0]] = kv[1]
			}
			e := liquid.NewEngine()
			args := []string{"--env"}
			if strict {
				e.StrictVariables()
				args = append(args, "--strict")
			}
			want, werr := e.ParseAndRenderString(src, bind)
			var outs []string
			for k := 0; k < 2; k++ {
				cmd := exec.Command(cli, args...)
				cmd.Env = env
				cmd.Stdin = strings.NewReader(src)
				var so, se bytes.Buffer
				cmd.Stdout, cmd.Stderr = &so, &se
				err := cmd.Run()
				r.Eval()
				outs = append(outs, fmt.Sprintf("exit=%v|%s|%s", err != nil, so.String(), strings.TrimSpace(se.String())))
			}
			exp := fmt.Sprintf("exit=%v|%s|", werr != nil, want)
			if werr != nil {
				exp += werr.Error()
			}
			r.Class("cli/" + fmt.Sprint(werr != nil))
			if outs[0] != outs[1] || outs[0] != exp {
				r.Violation("command-line-differs", map[string]any{"template": src, "strict": strict}, exp, outs[0]+" / "+outs[1])
			}
		}})
	}
	return fams
}

// c02Digest renders the whole pool in this process and prints one line per template.
func c02Digest() []string {
	e := c02Engine()
	var out []string
	for _, it := range c02Pool() {
		o := Render(e, it.src, it.bind())
		out = append(out, fmt.Sprintf("%x %s", sha1.Sum([]byte(o.Sig())), trunc80(it.src)))
	}
	for t, src := range c02MapTemplates {
		for _, n := range []int{2, 8, 12} {
			id := make([]int, n)
			for j := range id {
				id[j] = n - 1 - j
			}
			o := Render(e, src, c02Bindings(n, id))
			out = append(out, fmt.Sprintf("%x map-template %d n=%d", sha1.Sum([]byte(o.Sig())), t, n))
		}
	}
	return out
}

func init() {
	explore.Register(&explore.Prop{
		ID:    "C02",
		Level: "model_checking",
		Rule: "map order: 19 map-consuming templates (for with modifiers, tablerow, object, every array filter, nested maps, assign, include, capture, contains, IterationKeyedMap, MapSlice, typed map) x maps of 2,3,4,8,12,13,20,27 entries (up to 8 buckets) x insertion orders (all n! for n<=4, cyclic shifts + reversal beyond); " +
			"every Go map-iteration start during the render is an environment choice point owned by the harness through a runtime overlay; deviation-bounded DFS over all answers (<=1 deviation quick, <=3 thorough), executions run to completion, outputs must equal the canonical one; " +
			"entry points: every template of a ~400-template pool (the repository's own test templates + fault pool) through 6 entry points, 3 re-renders of one parsed template, each entry point again right after a render that failed half-way and after an unrelated render, fresh engine, bindings rebuilt per call; two fresh processes render the pool and must agree (digest); thorough adds the command-line tool as a sub-process; " +
			"state = choice-vector prefix; transition = one deviation taken; trace = one execution of the real render under that environment",
		Assumptions: []string{
			"the runtime seam is tied to go1.23's bucket maps: tools/rtseam.sh verifies its anchors and the check reports exhaustive:false when they are missing",
			"maps above 27 entries (more than 8 buckets) are not enumerated; hash seeds are pinned so bucket placement is reproducible",
			"date 'now' and time zones are excluded (documented exceptions); TZ=UTC",
			"the keys of one map have distinct printed forms (two NaN keys, or one instant in time.UTC and in FixedZone(\"UTC\", 0), cannot be told apart without their addresses)",
			"values that contain themselves through a slice or map (not through a pointer), channels and funcs are not plain data and are not printed",
		},
		Setup: func(string) {
			mapSeamPinHash(true)
			c02.eng = c02Engine()
		},
		Families: c02Families,
		Digest:   c02Digest,
		Bound: func(tier string) string {
			if tier == "thorough" {
				return "all executions with <=3 deviating map-iteration starts for maps of <=4 entries, <=2 for 8 and 12 entries"
			}
			return "all executions with <=1 deviating map-iteration start"
		},
	})
}

var _ = sort.Strings
