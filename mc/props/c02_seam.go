//go:build rtseam

package props

import "runtime"

func init() {
	mapSeamAvailable = true
	mapSeamBegin = runtime.VerifMapBegin
	mapSeamEnd = runtime.VerifMapEnd
	mapSeamPinHash = runtime.VerifPinHash
}
