package props

import (
	"fmt"
	"regexp"
	"strconv"
	"strings"

	"github.com/osteele/liquid"
	"verifmc/explore"
)

// C12 — assign/capture bind for the rest of the render; loop variables are restored.

const (
	c12IncName = "c12_included.liquid"
	c12IncBody = "(inc:{{ x }}|{{ y }}|{{ i }}|{{ forloop.index }}){% assign z = 5 %}"
	c12Probe   = "<{{ x }}|{{ y }}|{{ i }}|{{ forloop.index }}{% if forloop == 'mine' %}M{% endif %}|{{ f.index }}>"
)

var c12 struct {
	eng *liquid.Engine
	p   []int64 // p[n] = number of programs of size exactly n
}

// statement kinds
const (
	sAssignX1 = iota
	sAssignX2
	sAssignYX
	sInclude
	sAssignForloop
	sAssignF // {% assign f = forloop %}: f keeps the value forloop had at that moment
	nLeaf
)
const (
	bCapture = iota
	bForX
	bForIBreak
	bForForloop
	bTablerow
	bIfTrue
	bIfFalse
	nBlock
)

type c12Stmt struct {
	leaf  int // >=0 for leaves
	block int
	body  []c12Stmt
}

func c12Counts(n int) []int64 {
	p := make([]int64, n+1)
	p[0] = 1
	stmt := func(s int) int64 {
		if s == 1 {
			return int64(nLeaf) + int64(nBlock)*p[0]
		}
		return int64(nBlock) * p[s-1]
	}
	for k := 1; k <= n; k++ {
		for s := 1; s <= k; s++ {
			p[k] += stmt(s) * p[k-s]
		}
	}
	return p
}

func c12Unrank(p []int64, n int, idx int64) []c12Stmt {
	if n == 0 {
		return nil
	}
	for s := 1; s <= n; s++ {
		var st int64
		if s == 1 {
			st = int64(nLeaf) + int64(nBlock)
		} else {
			st = int64(nBlock) * p[s-1]
		}
		blockCount := st * p[n-s]
		if idx < blockCount {
			first := c12UnrankStmt(p, s, idx/p[n-s])
			return append([]c12Stmt{first}, c12Unrank(p, n-s, idx%p[n-s])...)
		}
		idx -= blockCount
	}
	panic("harness: unrank")
}

func c12UnrankStmt(p []int64, s int, j int64) c12Stmt {
	if s == 1 {
		if j < int64(nLeaf) {
			return c12Stmt{leaf: int(j), block: -1}
		}
		return c12Stmt{leaf: -1, block: int(j) - nLeaf}
	}
	return c12Stmt{leaf: -1, block: int(j / p[s-1]), body: c12Unrank(p, s-1, j%p[s-1])}
}

// c12Quiet: when set, probes are emitted (and modelled) at the top level only; inside block bodies the only
// observer is the included file, so no body mentions forloop, x, y or i by name unless the program itself does.
func c12Source(prog []c12Stmt, sb *strings.Builder) { c12SourceQ(prog, sb, false, 0) }

func c12SourceQ(prog []c12Stmt, sb *strings.Builder, quiet bool, depth int) {
	for _, st := range prog {
		if st.leaf >= 0 {
			switch st.leaf {
			case sAssignX1:
				sb.WriteString("{% assign x = 1 %}")
			case sAssignX2:
				sb.WriteString("{% assign x = 2 %}")
			case sAssignYX:
				sb.WriteString("{% assign y = x %}")
			case sInclude:
				sb.WriteString(`{% include "` + c12IncName + `" %}`)
			case sAssignForloop:
				sb.WriteString("{% assign forloop = 'mine' %}")
			case sAssignF:
				sb.WriteString("{% assign f = forloop %}")
			}
		} else {
			open, close := "", ""
			switch st.block {
			case bCapture:
				open, close = "{% capture x %}", "{% endcapture %}"
			case bForX:
				open, close = "{% for x in (1..2) %}", "{% endfor %}"
			case bForIBreak:
				open, close = "{% for i in (1..3) %}", "{% if i == 2 %}{% break %}{% endif %}{% endfor %}"
			case bForForloop:
				open, close = "{% for forloop in (1..1) %}", "{% endfor %}"
			case bTablerow:
				open, close = "{% tablerow x in (1..2) %}", "{% endtablerow %}"
			case bIfTrue:
				open, close = "{% if true %}", "{% endif %}"
			case bIfFalse:
				open, close = "{% if false %}", "{% endif %}"
			}
			sb.WriteString(open)
			if !quiet {
				sb.WriteString(c12Probe)
			}
			c12SourceQ(st.body, sb, quiet, depth+1)
			sb.WriteString(close)
		}
		if !quiet || depth == 0 {
			sb.WriteString(c12Probe)
		}
	}
}

// c12IncludeInBlock: some include statement sits inside a block body.
func c12IncludeInBlock(prog []c12Stmt, depth int) bool {
	for _, st := range prog {
		if st.leaf == sInclude && depth > 0 {
			return true
		}
		if st.leaf < 0 && c12IncludeInBlock(st.body, depth+1) {
			return true
		}
	}
	return false
}

// ---- reference interpreter: one flat store

type c12Store struct {
	x, y, i string // printed values
	fl      string // forloop.index as printed ("" outside loops); "M" when forloop was assigned 'mine'
	f       string // f.index as printed, f being a copy of forloop taken by {% assign f = forloop %}
}

func c12Run(prog []c12Stmt, st *c12Store, out *strings.Builder) { c12RunQ(prog, st, out, false, 0) }

func c12RunQ(prog []c12Stmt, st *c12Store, out *strings.Builder, quiet bool, depth int) {
	emit := func() { out.WriteString("<" + st.x + "|" + st.y + "|" + st.i + "|" + st.fl + "|" + st.f + ">") }
	probe := func() { // at the start of a body
		if !quiet {
			emit()
		}
	}
	after := func() { // after a statement
		if !quiet || depth == 0 {
			emit()
		}
	}
	for _, s := range prog {
		if s.leaf >= 0 {
			switch s.leaf {
			case sAssignX1:
				st.x = "1"
			case sAssignX2:
				st.x = "2"
			case sAssignYX:
				st.y = st.x
			case sInclude:
				fl := st.fl
				if fl == "M" {
					fl = "" // the included file prints forloop.index only
				}
				out.WriteString("(inc:" + st.x + "|" + st.y + "|" + st.i + "|" + fl + ")")
			case sAssignForloop:
				st.fl = "M"
			case sAssignF:
				st.f = st.fl
				if st.f == "M" {
					st.f = "" // a string has no index
				}
			}
		} else {
			switch s.block {
			case bCapture:
				var buf strings.Builder
				save := out
				out = &buf
				probe()
				c12RunQ(s.body, st, out, quiet, depth+1)
				out = save
				st.x = buf.String()
			case bForX, bTablerow:
				oldX, oldFl := st.x, st.fl
				for k := 1; k <= 2; k++ {
					st.x, st.fl = strconv.Itoa(k), strconv.Itoa(k)
					probe()
					c12RunQ(s.body, st, out, quiet, depth+1)
				}
				st.x, st.fl = oldX, oldFl
			case bForIBreak:
				oldI, oldFl := st.i, st.fl
				for k := 1; k <= 3; k++ {
					st.i, st.fl = strconv.Itoa(k), strconv.Itoa(k)
					probe()
					c12RunQ(s.body, st, out, quiet, depth+1)
					if st.i == "2" { // {% if i == 2 %}{% break %}: i may have been changed only by an inner loop, which restores it
						break
					}
				}
				st.i, st.fl = oldI, oldFl
			case bForForloop:
				oldFl := st.fl
				st.fl = "1"
				probe()
				c12RunQ(s.body, st, out, quiet, depth+1)
				st.fl = oldFl
			case bIfTrue:
				probe()
				c12RunQ(s.body, st, out, quiet, depth+1)
			case bIfFalse:
			}
		}
		after()
	}
}

var c12TableTags = regexp.MustCompile(`</?t[rd][^>]*>`)

func c12Families(tier string) []explore.Family {
	N := 4
	if tier == "thorough" {
		N = 5
	}
	if c12.p == nil || len(c12.p) < N+1 {
		c12.p = c12Counts(N)
	}
	p := c12.p
	var fams []explore.Family
	for n := 0; n <= N; n++ {
		n := n
		fams = append(fams, explore.Family{Name: fmt.Sprintf("programs-size%d", n), Count: p[n] * 4, Run: func(i int64, r *explore.Rec) {
			prebound := i%2 == 1
			quiet := (i/2)%2 == 1
			prog := c12Unrank(p, n, i/4)
			if quiet && !c12IncludeInBlock(prog, 0) {
				return // without probes in bodies only an include inside a block observes anything new
			}
			var sb strings.Builder
			sb.WriteString(c12Probe)
			c12SourceQ(prog, &sb, quiet, 0)
			src := sb.String()
			bind := map[string]any{}
			st := &c12Store{}
			if prebound {
				bind["x"], bind["y"] = "X0", "Y0"
				st.x, st.y = "X0", "Y0"
			}
			var want strings.Builder
			want.WriteString("<" + st.x + "|" + st.y + "|" + st.i + "|" + st.fl + "|" + st.f + ">")
			c12RunQ(prog, st, &want, quiet, 0)
			r.Eval()
			r.Transition()
			r.Trace()
			o := Render(c12.eng, src, bind)
			desc := func() any {
				return map[string]any{"template": src, "prebound": prebound, "probes_in_bodies": !quiet, "included_file": c12IncBody}
			}
			got := c12TableTags.ReplaceAllString(o.Out, "")
			r.State(fmt.Sprintf("store:x=%.4s,y=%.4s", st.x, st.y))
			r.Class(fmt.Sprintf("size%d/%s", n, o.Class()))
			if o.Panic != nil || o.Err != nil || got != want.String() {
				r.Violation("wrong:scoping", desc(), want.String(), o.String())
			}
			// capture equivalence: {% capture c %}F{% endcapture %}{{ c }} renders as F
			r.Eval()
			o2 := Render(c12.eng, "{% capture c_ %}"+src+"{% endcapture %}{{ c_ }}", bind)
			if o2.Sig() != o.Sig() {
				r.Violation("capture-equivalence", desc(), o.String(), o2.String())
			}
			if r.WantSample() {
				r.Sample(map[string]any{"case": desc(), "observed": o.String()})
			}
		}})
	}
	// every legal identifier of <=3 symbols over {a, b, _, 1, -, ?} as assign and capture target: the variable that is
	// read back is the one that was written, and a neighbouring name is not touched
	idAlpha := []string{"a", "b", "_", "1", "-", "?"}
	idRe := regexp.MustCompile(`^[a-z_][a-z0-9_-]*\??$`)
	fams = append(fams, explore.Family{Name: "identifier-names", Count: seqCount(len(idAlpha), 3), Run: func(i int64, r *explore.Rec) {
		name := joinSyms(idAlpha, seqAt(len(idAlpha), i), "")
		if !idRe.MatchString(name) || name == "nil" || name == "true" || name == "false" || name == "in" || name == "and" || name == "or" || name == "contains" {
			return
		}
		for _, other := range []string{strings.TrimRight(name, "?-"), name + "b", "a" + name} {
			if other == name || !idRe.MatchString(other) {
				continue
			}
			for _, form := range []struct{ src, want string }{
				{"{% assign " + other + " = 'OTHER' %}{% capture " + name + " %}CAP{% endcapture %}[{{ " + name + " }}|{{ " + other + " }}]", "[CAP|OTHER]"},
				{"{% assign " + other + " = 'OTHER' %}{% assign " + name + " = 'ASG' %}[{{ " + name + " }}|{{ " + other + " }}]", "[ASG|OTHER]"},
				{"{% for " + name + " in (1..2) %}{{ " + name + " }}{% endfor %}[{{ " + name + " }}]", "12[]"},
				{"{% capture " + name + " %}A{% endcapture %}{% capture " + name + " %}{{ " + name + " }}B{% endcapture %}{{ " + name + " | append: '!' }}", "AB!"},
			} {
				r.Eval()
				r.Transition()
				o := Render(c12.eng, form.src, map[string]any{})
				if o.Panic != nil || o.Err != nil || o.Out != form.want {
					r.Violation("wrong:variable-name", map[string]any{"template": form.src, "name": name}, form.want, o.String())
				}
			}
		}
		r.Trace()
		r.Class("names/" + strconv.Itoa(len(name)))
	}})
	// capture equivalence for fragments of other generators (loops with modifiers, conditionals, trim-free objects)
	frags := []string{
		"{% for x in (1..3) reversed limit: 2 %}" + c11Trace + "{% else %}E{% endfor %}",
		"{% tablerow x in (1..3) cols: 2 %}{{ x }}{% endtablerow %}",
		"{% for x in (1..3) %}{% if x == 2 %}{% continue %}{% endif %}{% cycle 'a', 'b' %}{{ x }}{% endfor %}",
		"{% if x %}A{% elsif y %}B{% else %}C{% endif %}{% unless x %}U{% endunless %}{% case y %}{% when 1 %}W{% else %}V{% endcase %}",
		"a {{ x }} b\n{{ y | upcase }}  {% raw %}{{ x }}{% endraw %}{% comment %}zz{% endcomment %}", "", " ", "{{ nil }}",
		"{% assign q = 3 %}{{ q }}{% capture w %}in{{ q }}{% endcapture %}[{{ w }}]",
		`{% include "` + c12IncName + `" %}`,
	}
	binds := []map[string]any{{}, {"x": 1, "y": 1}, {"x": nil, "y": "s"}, {"x": false, "y": []any{1, 2}}}
	// capture binds TEXT: a variable captured from literal text F is indistinguishable, in every position a value can
	// stand in, from a variable assigned the string F
	capTexts := []string{"abc", "1", "12", "", " x ", "é", "a,b", "true", "nil", "1.5"}
	capUses := []string{"{{ v }}", "{{ v | size }}", "{% if v == LIT %}E{% else %}N{% endif %}", "{% if v contains 'b' %}C{% endif %}", "{% case v %}{% when LIT %}W{% else %}O{% endcase %}",
		"{% for c in v %}[{{ c }}]{% endfor %}", "{{ v | first }}|{{ v | last }}", "{{ v | json }}", "{{ v | plus: 1 }}", "{{ v | append: 'z' | upcase }}", "{{ v | split: ',' | size }}", "{% if v %}T{% endif %}{% if v == empty_name %}M{% endif %}",
		"{{ m[v] }}", "{% assign w = v %}{{ w | size }}{% if w == v %}S{% endif %}", "{{ v | reverse }}", "{{ v | sort }}", "{% if v < 'b' %}L{% endif %}", "{{ v | slice: 0 }}", "{{ v | default: 'd' }}", "{% tablerow c in v %}{{ c }}{% endtablerow %}"}
	fams = append(fams, explore.Family{Name: "capture-binds-text", Count: int64(len(capTexts) * len(capUses)), Run: func(i int64, r *explore.Rec) {
		txt, use := capTexts[int(i)%len(capTexts)], capUses[int(i)/len(capTexts)]
		lit := "'" + txt + "'"
		use = strings.ReplaceAll(use, "LIT", lit)
		srcC := "{% capture v %}" + txt + "{% endcapture %}" + use
		srcA := "{% assign v = " + lit + " %}" + use
		bind := func() map[string]any { return map[string]any{"m": map[string]any{txt: "hit"}} }
		r.Eval()
		r.Eval()
		r.Transition()
		r.Trace()
		oc, oa := Render(c12.eng, srcC, bind()), Render(c12.eng, srcA, bind())
		r.Class("capture-binds-text/" + oa.Class())
		if oc.Sig() != oa.Sig() {
			r.Violation("capture-is-not-text", map[string]any{"captured": srcC, "assigned": srcA}, oa.String(), oc.String())
		}
	}})

	// what an include does to the includer's variables does not depend on HOW the included file ends: a file that
	// assigns and then runs into break/continue (caught by the includer's loop) is like one that just assigns
	endings := []string{"", "{% break %}", "{% continue %}", "{% if true %}{% break %}{% endif %}", "{% for q in (1..2) %}{% break %}{% endfor %}"}
	incBodies := []string{"{% assign x = 'inc' %}{% assign fresh = 'F' %}", "{% capture x %}cap{% endcapture %}", "{% for x in (7..8) %}{% endfor %}{% assign y = x %}", "{% assign i = 99 %}"}
	fams = append(fams, explore.Family{Name: "include-effects-whatever-its-ending", Count: int64(len(endings) * len(incBodies) * 2), Run: func(i int64, r *explore.Rec) {
		rx := radix{i}
		pre, body, end := rx.next(2) == 1, incBodies[rx.next(len(incBodies))], endings[rx.next(len(endings))]
		name := fmt.Sprintf("c12_end_%d.liquid", i)
		plain := fmt.Sprintf("c12_end_%d_plain.liquid", i)
		for n, src := range map[string]string{name: body + end + "AFTER", plain: body} {
			if _, err := c12.eng.ParseTemplateAndCache([]byte(src), n, 1); err != nil {
				panic(explore.BaselineFailure{Msg: "harness: " + err.Error()})
			}
		}
		main := func(file string) string {
			return "{% assign x = 'outer' %}{% for i in (1..2) %}{% include \"" + file + "\" %}<{{ x }}|{{ y }}|{{ i }}|{{ fresh }}>{% endfor %}<{{ x }}|{{ y }}|{{ i }}|{{ fresh }}>"
		}
		bind := map[string]any{}
		if pre {
			bind["x"], bind["y"] = "X0", "Y0"
		}
		r.Eval()
		r.Eval()
		r.Transition()
		r.Trace()
		oe, op := Render(c12.eng, main(name), bind), Render(c12.eng, main(plain), bind)
		// the variable values seen by the includer: everything between < and > (what the included file itself prints is ignored)
		vars := func(o Outcome) string {
			return strings.Join(regexp.MustCompile(`<[^<>]*>`).FindAllString(o.Out, -1), "")
		}
		r.Class("include-ending")
		if oe.Panic != nil || oe.Err != nil || op.Err != nil {
			r.Violation("include-ending:fails", map[string]any{"included_file": body + end + "AFTER"}, "output", oe.String()+" / "+op.String())
			return
		}
		// with break the loop ends after the first iteration; compare the first iteration's probe and, for continue, both
		first := func(s string) string {
			if k := strings.Index(s, ">"); k >= 0 {
				return s[:k+1]
			}
			return s
		}
		if strings.Contains(end, "break") && !strings.Contains(end, "for q") {
			// the probe inside the loop is skipped by the break: only the probe after the loop is left; it must equal the
			// plain file's probe after ITS first iteration as far as x, y and fresh go
			ve, vp := vars(oe), vars(op)
			strip := func(p string) string {
				parts := strings.Split(strings.Trim(p, "<>"), "|")
				return parts[0] + "|" + parts[1] + "|" + parts[3]
			}
			if ve == "" || strip(ve) != strip(first(vp)) {
				r.Violation("include-ending:variables-differ", map[string]any{"included_file": body + end, "plain_file": body}, "x, y, fresh as after the plain file: "+first(vp), ve)
			}
			return
		}
		if strings.Contains(end, "continue") {
			ve, vp := vars(oe), vars(op)
			if !strings.HasSuffix(vp, ve) {
				r.Violation("include-ending:variables-differ", map[string]any{"included_file": body + end, "plain_file": body}, "the probe after the loop as with the plain file: "+vp, ve)
			}
			return
		}
		if vars(oe) != vars(op) {
			r.Violation("include-ending:variables-differ", map[string]any{"included_file": body + end, "plain_file": body}, vars(op), vars(oe))
		}
	}})

	fams = append(fams, c12LiveFamily(), c12ContextAPIFamily())
	// "holds exactly the assigned value": a variable assigned from a literal or another variable can stand wherever
	// that literal or variable stood - also where the KIND of the value matters (an integer or a float divisor, an
	// index, a range bound, json, sorting next to strings), not only where it is printed
	akExprs := []string{"4.0", "4", "fx", "ix", "'4'", "true", "nil", "2.50", "-0.0", "1.0", "f1", "u8", "'4.0'", "big", "lst", "mp", "fl32"}
	akUses := []string{"{{ 10 | divided_by: V }}", "{{ V | type }}", "{{ V }}|{{ V | json }}", "{{ V | plus: 1 }}|{{ V | times: 3 }}|{{ 7 | modulo: V }}", "{% if V == 4 %}E{% endif %}{% if V %}T{% endif %}{% if V == '4' %}S{% endif %}",
		"{{ l[V] }}", "{% for i in (1..V) %}{{ i }}{% endfor %}", "{{ l | slice: V | join }}|{{ 'abcdefg' | slice: V }}", "{% case V %}{% when 4 %}four{% when '4' %}str{% when 4.5 %}f{% else %}other{% endcase %}",
		"{{ V | append: '' }}|{{ V | size }}", "{{ V | round }}|{{ V | ceil }}|{{ V | abs }}", "{{ l | join: V }}", "{% for i in l limit: V %}{{ i }}{% endfor %}", "{{ V | default: 'd' }}", "{{ 9 | minus: V | type }}"}
	fams = append(fams, explore.Family{Name: "assigned-variable-stands-for-its-value", Count: int64(len(akExprs) * len(akUses) * 3), Run: func(i int64, r *explore.Rec) {
		rx := radix{i}
		route, use, e := rx.next(3), akUses[rx.next(len(akUses))], akExprs[rx.next(len(akExprs))]
		bind := func() map[string]any {
			return map[string]any{"fx": 4.0, "ix": 4, "f1": 1.0, "u8": uint8(4), "big": 1e15, "lst": []any{1, 2.0}, "mp": map[string]any{"a": 2.0}, "fl32": float32(2), "l": []any{"a", "b", "c", "d", "e", "f"}}
		}
		direct := strings.ReplaceAll(use, "V", e)
		var via string
		switch route {
		case 0:
			via = "{% assign v = " + e + " %}" + strings.ReplaceAll(use, "V", "v")
		case 1:
			via = "{% assign w = " + e + " %}{% assign v = w %}" + strings.ReplaceAll(use, "V", "v")
		default:
			via = "{% for q in (1..2) %}{% assign v = " + e + " %}{% endfor %}{% if true %}" + strings.ReplaceAll(use, "V", "v") + "{% endif %}"
		}
		r.Eval()
		r.Transition()
		r.Trace()
		od, ov := Render(c12.eng, direct, bind()), Render(c12.eng, via, bind())
		r.Class("assigned-kind/" + od.Class())
		r.State("assigned-kind")
		if od.Panic != nil || ov.Panic != nil || (od.Err != nil) != (ov.Err != nil) || od.Out != ov.Out {
			r.Violation("wrong:assigned-value-not-exact", map[string]any{"direct": direct, "via_assign": via}, od.String(), ov.String())
		}
	}})
	fams = append(fams, explore.Family{Name: "capture-equivalence-fragments", Count: int64(len(frags) * len(frags) * len(binds)), Run: func(i int64, r *explore.Rec) {
		rx := radix{i}
		b, f2, f1 := binds[rx.next(len(binds))], frags[rx.next(len(frags))], frags[rx.next(len(frags))]
		src := f1 + f2
		r.Eval()
		r.Eval()
		r.Transition()
		o := Render(c12.eng, src, b)
		o2 := Render(c12.eng, "{% capture c_ %}"+src+"{% endcapture %}{{ c_ }}", b)
		r.Class("fragments/" + o.Class())
		if o2.Sig() != o.Sig() {
			r.Violation("capture-equivalence", map[string]any{"fragment": src, "bindings": fmt.Sprint(b)}, o.String(), o2.String())
		}
	}})
	return fams
}

func init() {
	explore.Register(&explore.Prop{
		ID:    "C12",
		Level: "model_checking",
		Rule: "all programs of <=4 (quick) / <=5 (thorough) statements (block bodies count) over {assign x=1, assign x=2, assign y=x, include, assign forloop='mine', assign f=forloop (the whole loop object, read back later as f.index), capture x, for x (shadowing), for i with break, for forloop, tablerow x, if true, if false}, a probe reading x, y, i and forloop.index after every statement and at the start of every body - and, for programs with an include inside a block, a second rendering in which block bodies carry NO probes, so that the included file is the only observer and no body mentions forloop or the variables by name unless the program does, " +
			"each with x,y initially unbound and bound; oracle = reference interpreter with one flat store and save/restore of loop variable and forloop; every legal identifier of <=3 symbols over {a,b,_,1,-,?} as assign/capture/loop variable; plus the capture-equivalence law on every program and on fragment pairs from other generators; " +
			"state = reference store after the program; transition = one program rendered",
		Assumptions: []string{
			"whether assignments made inside an included file are visible to the includer afterwards is not stated; the included file assigns only z, which the includer never reads",
			"tablerow's <tr>/<td> decoration is stripped before comparison",
		},
		Setup: func(string) {
			c12.eng = liquid.NewEngine()
			if _, err := c12.eng.ParseTemplateAndCache([]byte(c12IncBody), c12IncName, 1); err != nil {
				panic(explore.BaselineFailure{Msg: "harness: " + err.Error()})
			}
		},
		Families: c12Families,
		Bound: func(tier string) string {
			if tier == "thorough" {
				return "programs of <=5 statements over 11 statement kinds"
			}
			return "programs of <=4 statements over 11 statement kinds"
		},
	})
}
