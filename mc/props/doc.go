package props
