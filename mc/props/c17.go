package props

import (
	"fmt"
	"math"
	"math/big"
	"regexp"
	"strconv"
	"strings"

	"github.com/osteele/liquid"
	"verifmc/explore"
)

// C17 — numeric filters compute exact arithmetic and report impossible operations.

type numVal struct {
	name string
	v    any
	r    *big.Rat // nil when not a number
	kind string   // int | float | numstr | badstr | nil
	lit  string   // literal spelling ("" when only bindable)
}

var c17 struct {
	eng *liquid.Engine
	n   []numVal
	n2  []numVal
}

func rat(n, d int64) *big.Rat { return big.NewRat(n, d) }

func c17Universe() []numVal {
	var out []numVal
	addInt := func(n int64) {
		s := strconv.FormatInt(n, 10)
		out = append(out, numVal{"i" + s, int(n), rat(n, 1), "int", s})
		out = append(out, numVal{"f" + s, float64(n), rat(n, 1), "float", ""})
	}
	for n := int64(-12); n <= 12; n++ {
		addInt(n)
	}
	for _, n := range []int64{1 << 31, -(1 << 31), 1<<53 - 1, -(1<<53 - 1), 1 << 53} {
		addInt(n)
	}
	// other widths of a few whole numbers
	out = append(out,
		numVal{"i8_7", int8(7), rat(7, 1), "int", ""}, numVal{"i64_m3", int64(-3), rat(-3, 1), "int", ""},
		numVal{"u8_4", uint8(4), rat(4, 1), "int", ""}, numVal{"u_2", uint(2), rat(2, 1), "int", ""}, numVal{"u64_5", uint64(5), rat(5, 1), "int", ""},
		numVal{"i32_0", int32(0), rat(0, 1), "int", ""}, numVal{"u16_0", uint16(0), rat(0, 1), "int", ""},
		numVal{"f32_2_5", float32(2.5), rat(5, 2), "float", ""}, numVal{"f32_0", float32(0), rat(0, 1), "float", ""})
	// floats a few ulps away from a whole number (they are not whole: ceil and floor must tell)
	for _, k := range []float64{0, 1, 3, -2, 1024, 1 << 40} {
		for _, f := range []float64{math.Nextafter(k, k+1), math.Nextafter(k, k-1), k + 1.0/(1<<50)*math.Max(1, math.Abs(k)), k - 1.0/(1<<50)*math.Max(1, math.Abs(k))} {
			if f == k || math.Abs(f) < 1e-300 {
				continue // (denormals overflow every division: what an overflowing result prints as is not stated)
			}
			out = append(out, numVal{"near_" + strconv.FormatFloat(f, 'g', -1, 64), f, new(big.Rat).SetFloat64(f), "float", ""})
		}
	}
	// float32 operands whose shortest decimal spelling is NOT their value: widening must be exact
	for _, f := range []float32{0.1, 1 << 31, 1.0 / (1 << 20), 16777216, 3.3, 1e10, -0.7, 123456.79} {
		out = append(out, numVal{"f32_" + strconv.FormatFloat(float64(f), 'g', -1, 32), f, new(big.Rat).SetFloat64(float64(f)), "float", ""})
	}
	for k := int64(-12); k <= 12; k++ {
		if k%4 == 0 {
			continue
		}
		f := float64(k) / 4
		out = append(out, numVal{"q" + strconv.FormatInt(k, 10), f, rat(k, 4), "float", strconv.FormatFloat(f, 'f', -1, 64)})
	}
	out = append(out,
		numVal{"s3", "3", rat(3, 1), "numstr", `"3"`}, numVal{"sm2", "-2", rat(-2, 1), "numstr", `"-2"`},
		numVal{"s1_5", "1.5", rat(3, 2), "numstr", `"1.5"`}, numVal{"s0", "0", rat(0, 1), "numstr", `"0"`},
		// zero-padded spellings are decimal (ids, months, prices read from text): never octal
		numVal{"s010", "010", rat(10, 1), "numstr", `"010"`}, numVal{"s0100", "0100", rat(100, 1), "numstr", `"0100"`}, numVal{"s0012", "0012", rat(12, 1), "numstr", `"0012"`},
		numVal{"s007", "007", rat(7, 1), "numstr", `"007"`}, numVal{"s00_5", "00.5", rat(1, 2), "numstr", `"00.5"`}, numVal{"sm010", "-010", rat(-10, 1), "numstr", `"-010"`},
		numVal{"s0777", "0777", rat(777, 1), "numstr", `"0777"`},
		numVal{"sabc", "abc", nil, "badstr", `"abc"`}, numVal{"sempty", "", nil, "badstr", `""`},
		numVal{"nil", nil, nil, "nil", "nil"})
	return out
}

func c17Small() []numVal {
	return []numVal{
		{"-3", -3, rat(-3, 1), "int", "-3"}, {"-1", -1, rat(-1, 1), "int", "-1"}, {"0", 0, rat(0, 1), "int", "0"},
		{"1", 1, rat(1, 1), "int", "1"}, {"2", 2, rat(2, 1), "int", "2"}, {"0.5", 0.5, rat(1, 2), "float", "0.5"}, {"2.5", 2.5, rat(5, 2), "float", "2.5"},
	}
}

var binOps = []string{"plus", "minus", "times", "divided_by", "modulo"}

func exactF64(r *big.Rat) bool {
	f, exact := r.Float64()
	return exact && !math.IsInf(f, 0)
}

var wholeRe = regexp.MustCompile(`^-?\d+$`)

// numResult is the reference verdict of one step.
type numResult struct {
	vals   []*big.Rat // acceptable exact results (1 or 2)
	isInt  bool       // result is an integer by construction
	err    bool       // an error is required
	unspec bool       // the statement is silent
}

func floorRat(r *big.Rat) *big.Rat {
	q := new(big.Int).Div(r.Num(), r.Denom()) // Euclidean for positive denom = floor
	return new(big.Rat).SetInt(q)
}
func truncRat(r *big.Rat) *big.Rat {
	q := new(big.Int).Quo(r.Num(), r.Denom())
	return new(big.Rat).SetInt(q)
}

// refBin is the reference for `a | op: b` where a may be a set-free single value.
func refBin(op string, a *big.Rat, b numVal) numResult {
	if b.kind == "badstr" {
		return numResult{err: true}
	}
	if b.kind == "nil" || b.kind == "numstr" {
		return numResult{unspec: true}
	}
	br := b.r
	switch op {
	case "plus":
		return numResult{vals: []*big.Rat{new(big.Rat).Add(a, br)}}
	case "minus":
		return numResult{vals: []*big.Rat{new(big.Rat).Sub(a, br)}}
	case "times":
		return numResult{vals: []*big.Rat{new(big.Rat).Mul(a, br)}}
	case "divided_by":
		if br.Sign() == 0 {
			return numResult{err: true}
		}
		q := new(big.Rat).Quo(a, br)
		if b.kind == "int" {
			return numResult{vals: []*big.Rat{floorRat(q), truncRat(q)}, isInt: true}
		}
		return numResult{vals: []*big.Rat{q}}
	case "modulo":
		if br.Sign() == 0 {
			return numResult{err: true}
		}
		q := new(big.Rat).Quo(a, br)
		m1 := new(big.Rat).Sub(a, new(big.Rat).Mul(br, floorRat(q)))
		m2 := new(big.Rat).Sub(a, new(big.Rat).Mul(br, truncRat(q)))
		return numResult{vals: []*big.Rat{m1, m2}}
	}
	panic("harness: op " + op)
}

// judgeNum compares an implementation outcome with the reference verdict.
func judgeNum(r *explore.Rec, key string, desc func() any, res numResult, operandsExact bool, o Outcome) {
	switch {
	case o.Panic != nil:
		r.Violation("panic:"+key, desc(), "a result or an error", o.String())
		return
	case res.unspec:
		r.Class(key + "/unspecified")
		return
	case res.err:
		r.Class(key + "/error-required")
		if o.Err == nil {
			r.Violation("no-error:"+key, desc(), "an error (impossible operation)", o.String())
		}
		return
	}
	if o.Err != nil {
		r.Violation("unexpected-error:"+key, desc(), "a number", o.String())
		return
	}
	// "parses back": an integer spelling is read exactly, anything else as the float64 it denotes
	var p *big.Rat
	if wholeRe.MatchString(o.Out) {
		p, _ = new(big.Rat).SetString(o.Out)
	} else if f, err := strconv.ParseFloat(o.Out, 64); err == nil && !math.IsInf(f, 0) && !math.IsNaN(f) {
		p = new(big.Rat).SetFloat64(f)
	}
	if p == nil {
		r.Violation("not-a-number:"+key, desc(), "a number", o.String())
		return
	}
	exactAll := operandsExact
	for _, v := range res.vals {
		if !exactF64(v) {
			exactAll = false
		}
	}
	match := false
	for _, v := range res.vals {
		if exactAll {
			if p.Cmp(v) == 0 {
				match = true
			}
		} else {
			d := new(big.Rat).Sub(p, v)
			d.Abs(d)
			tol := new(big.Rat).Mul(new(big.Rat).Abs(v), big.NewRat(1, 1e9))
			if d.Cmp(tol) <= 0 {
				match = true
			}
		}
	}
	if !match {
		var exp []string
		for _, v := range res.vals {
			exp = append(exp, v.RatString())
		}
		r.Violation("wrong-value:"+key, desc(), fmt.Sprint(exp, " exact=", exactAll), o.String())
		return
	}
	whole := p.IsInt()
	// an integer quotient that no int64 holds can only be handed on as a float: like every float from 1e15 on it may be spelled with an exponent
	fitsInt64 := new(big.Rat).Abs(p).Cmp(new(big.Rat).SetFloat64(9223372036854775808)) < 0
	if (whole && new(big.Rat).Abs(p).Cmp(big.NewRat(1e15, 1)) < 0 || res.isInt && fitsInt64) && !wholeRe.MatchString(o.Out) {
		r.Violation("whole-number-format:"+key, desc(), "digits only (whole-number result)", o.String())
		return
	}
	r.Class(key + "/ok")
}

func c17Families(tier string) []explore.Family {
	if c17.n == nil {
		c17.n = c17Universe()
		c17.n2 = c17Small()
	}
	N := len(c17.n)
	var fams []explore.Family
	recv := func(a numVal) (r *big.Rat, res *numResult) {
		switch a.kind {
		case "badstr":
			return nil, &numResult{err: true}
		case "nil":
			return nil, &numResult{unspec: true}
		}
		return a.r, nil
	}
	// binary filters over all pairs, operands as variables
	fams = append(fams, explore.Family{Name: "binary", Count: int64(N * N * len(binOps)), Run: func(i int64, r *explore.Rec) {
		rx := radix{i}
		bi, ai, oi := rx.next(N), rx.next(N), rx.next(len(binOps))
		a, b, op := c17.n[ai], c17.n[bi], binOps[oi]
		src := "{{ a | " + op + ": b }}"
		desc := func() any { return map[string]any{"template": src, "a": a.name, "b": b.name} }
		r.Eval()
		r.Transition()
		r.Trace()
		r.State(op + ":" + a.kind + "/" + b.kind)
		o := Render(c17.eng, src, map[string]any{"a": a.v, "b": b.v})
		ar, pre := recv(a)
		var res numResult
		if pre != nil {
			res = *pre
			if res.err && b.kind != "int" && b.kind != "float" {
				// both operands questionable: still an error or unspecified, never a value
				res = numResult{unspec: o.Err != nil, err: o.Err == nil}
				if b.kind == "badstr" {
					res = numResult{err: true}
				}
			}
		} else {
			res = refBin(op, ar, b)
		}
		judgeNum(r, op+":"+a.kind+"/"+b.kind, desc, res, true, o)
		if r.WantSample() {
			r.Sample(map[string]any{"case": desc(), "observed": o.String()})
		}
	}})
	// the same with literal spelling where available
	var lits []numVal
	for _, v := range c17.n {
		if v.lit != "" {
			lits = append(lits, v)
		}
	}
	NL := len(lits)
	fams = append(fams, explore.Family{Name: "binary-literal", Count: int64(NL * NL * len(binOps)), Run: func(i int64, r *explore.Rec) {
		rx := radix{i}
		bi, ai, oi := rx.next(NL), rx.next(NL), rx.next(len(binOps))
		a, b, op := lits[ai], lits[bi], binOps[oi]
		src := "{{ " + a.lit + " | " + op + ": " + b.lit + " }}"
		desc := func() any { return map[string]any{"template": src} }
		r.Eval()
		r.Transition()
		o := Render(c17.eng, src, map[string]any{})
		ar, pre := recv(a)
		var res numResult
		if pre != nil {
			res = *pre
			if b.kind == "badstr" {
				res = numResult{err: true}
			} else if res.err && b.kind != "int" && b.kind != "float" {
				res = numResult{unspec: o.Err != nil, err: o.Err == nil}
			}
		} else {
			res = refBin(op, ar, b)
		}
		judgeNum(r, "lit:"+op+":"+a.kind+"/"+b.kind, desc, res, true, o)
	}})
	// unary filters and round with places
	unary := []string{"abs", "ceil", "floor", "round", "round: 0", "round: 1", "round: 2", "round: 3"}
	fams = append(fams, explore.Family{Name: "unary", Count: int64(N * len(unary)), Run: func(i int64, r *explore.Rec) {
		rx := radix{i}
		ai, ui := rx.next(N), rx.next(len(unary))
		a, u := c17.n[ai], unary[ui]
		src := "{{ a | " + u + " }}"
		desc := func() any { return map[string]any{"template": src, "a": a.name} }
		r.Eval()
		r.Transition()
		r.Trace()
		r.State(u + ":" + a.kind)
		o := Render(c17.eng, src, map[string]any{"a": a.v})
		ar, pre := recv(a)
		var res numResult
		if pre != nil {
			res = *pre
		} else {
			switch u {
			case "abs":
				res = numResult{vals: []*big.Rat{new(big.Rat).Abs(ar)}}
			case "ceil":
				res = numResult{vals: []*big.Rat{new(big.Rat).Neg(floorRat(new(big.Rat).Neg(ar)))}, isInt: true}
			case "floor":
				res = numResult{vals: []*big.Rat{floorRat(ar)}, isInt: true}
			default:
				p := int64(0)
				if len(u) > 6 {
					p, _ = strconv.ParseInt(u[7:], 10, 64)
				}
				scale := new(big.Rat).SetInt(new(big.Int).Exp(big.NewInt(10), big.NewInt(p), nil))
				x := new(big.Rat).Mul(ar, scale)
				x.Add(x, big.NewRat(1, 2))
				x = floorRat(x)
				x.Quo(x, scale)
				res = numResult{vals: []*big.Rat{x}}
			}
		}
		judgeNum(r, u+":"+a.kind, desc, res, true, o)
		if r.WantSample() {
			r.Sample(map[string]any{"case": desc(), "observed": o.String()})
		}
	}})
	// round to 0..4 places on fine binary fractions (k/64 for k in -64..192: exact operands whose digits straddle
	// every rounding position) and on decimal spellings k/1000 (inexact operands): the result is the exact value of
	// the float rounded half up, unless that exact value lies within a few ulps of a tie (float noise of the scaling may decide there)
	var fine []float64
	for k := -64; k <= 192; k++ {
		fine = append(fine, float64(k)/64)
	}
	for k := 0; k <= 400; k++ {
		fine = append(fine, float64(k)/1000)
	}
	fine = append(fine, 19.9949, 19.995, 2.675, 1.005, 0.285, 1234.5678, 0.0449, 0.045, 99.995, 0.3, 1e-7, 123456.789)
	// just below and just above a tie, by much more than float noise (1e-10, 1e-7, 2^-40) and by one ulp
	for _, base := range []float64{0.5, 1.5, 2.5, 10.5, 0.25, 0.125, 0.05, 0.005, 1.005, 7.45, 1000.5} {
		for _, eps := range []float64{1e-10, 1e-7, 1.0 / (1 << 40)} {
			fine = append(fine, base-eps, base+eps)
		}
		fine = append(fine, math.Nextafter(base, 0), math.Nextafter(base, 2*base))
	}
	fams = append(fams, explore.Family{Name: "round-fine-fractions", Count: int64(len(fine) * 5 * 2), Run: func(i int64, r *explore.Rec) {
		rx := radix{i}
		neg, p, x := rx.next(2) == 1, int64(rx.next(5)), fine[rx.next(len(fine))]
		if neg {
			x = -x
		}
		src := fmt.Sprintf("{{ a | round: %d }}", p)
		desc := func() any { return map[string]any{"template": src, "a": strconv.FormatFloat(x, 'g', -1, 64)} }
		X := new(big.Rat).SetFloat64(x)
		scale := new(big.Rat).SetInt(new(big.Int).Exp(big.NewInt(10), big.NewInt(p), nil))
		sx := new(big.Rat).Mul(X, scale)
		frac := new(big.Rat).Sub(sx, floorRat(sx))
		d := new(big.Rat).Sub(frac, big.NewRat(1, 2))
		d.Abs(d)
		r.Eval()
		r.Transition()
		r.Trace()
		o := Render(c17.eng, src, map[string]any{"a": x})
		// float noise of computing x*10^p is a few ulps of the product: only THAT close to a tie is the outcome open
		noise := new(big.Rat).Mul(new(big.Rat).Abs(sx), big.NewRat(1, 1<<48))
		if d.Sign() != 0 && d.Cmp(noise) < 0 {
			r.Class("round-fine/near-tie-unspecified")
			return
		}
		e := floorRat(new(big.Rat).Add(sx, big.NewRat(1, 2)))
		e.Quo(e, scale)
		judgeNum(r, fmt.Sprintf("round-fine:%d", p), desc, numResult{vals: []*big.Rat{e}}, true, o)
	}})

	// bounds: floor <= x <= ceil and ceil - floor in {0,1}, on the implementation's own outputs
	fams = append(fams, explore.Family{Name: "floor-ceil-law", Count: int64(N), Run: func(i int64, r *explore.Rec) {
		a := c17.n[i]
		if a.r == nil {
			return
		}
		r.Eval()
		o := Render(c17.eng, "{{ a | floor }} {{ a | ceil }}", map[string]any{"a": a.v})
		var fl, ce int64
		if _, err := fmt.Sscanf(o.Out, "%d %d", &fl, &ce); err != nil {
			r.Violation("floor-ceil-format", map[string]any{"a": a.name}, "two integers", o.String())
			return
		}
		lo, hi := big.NewRat(fl, 1), big.NewRat(ce, 1)
		if lo.Cmp(a.r) > 0 || hi.Cmp(a.r) < 0 || ce-fl > 1 {
			r.Violation("floor-ceil-law", map[string]any{"a": a.name}, "floor <= a <= ceil, ceil-floor <= 1", o.String())
		}
		r.Class("floor-ceil/ok")
	}})
	// chains of two and three binary steps over the reduced universe, literals
	S := len(c17.n2)
	O := len(binOps)
	for _, steps := range []int{2, 3} {
		steps := steps
		cnt := int64(S)
		for j := 0; j < steps; j++ {
			cnt *= int64(O * S)
		}
		fams = append(fams, explore.Family{Name: fmt.Sprintf("chain%d", steps), Count: cnt, Run: func(i int64, r *explore.Rec) {
			rx := radix{i}
			start := c17.n2[rx.next(S)]
			src := "{{ " + start.lit
			cur := []*big.Rat{start.r}
			allExact := true
			var res numResult
			dead := false
			key := "chain"
			for j := 0; j < steps; j++ {
				op, b := binOps[rx.next(O)], c17.n2[rx.next(S)]
				src += " | " + op + ": " + b.lit
				if !dead {
					key = "chain:" + op
				}
				if dead {
					continue
				}
				var next []*big.Rat
				for _, c := range cur {
					st := refBin(op, c, b)
					if st.err {
						res = numResult{err: true}
						dead = true
						key = "chain:" + op + "-impossible"
						break
					}
					next = append(next, st.vals...)
				}
				if !dead {
					for _, c := range cur {
						if !exactF64(c) {
							allExact = false
						}
					}
					cur = dedupRats(next)
					res = numResult{vals: cur}
					if len(cur) > 4 {
						res = numResult{unspec: true}
						dead = true
					}
				}
			}
			src += " }}"
			r.Eval()
			r.Transition()
			r.Trace()
			o := Render(c17.eng, src, map[string]any{})
			// intermediate results must be exact too for the exact comparison; be conservative: tolerance mode unless all small
			judgeNum(r, key, func() any { return map[string]any{"template": src} }, res, allExact, o)
		}})
	}
	// scaled: powers of two and ten as operands (exactly representable), and long chains of +1
	var mags []numVal
	for k := 20; k <= 52; k += 4 {
		v := int64(1) << uint(k)
		for _, d := range []int64{-1, 0, 1} {
			s := strconv.FormatInt(v+d, 10)
			mags = append(mags, numVal{"i" + s, int(v + d), rat(v+d, 1), "int", s}, numVal{"f" + s, float64(v + d), rat(v+d, 1), "float", ""})
		}
	}
	for _, v := range []int64{1e6, 1e6 - 1, 1e9, 1e9 + 1, 1e12, 1e12 + 1, 1e15 - 1} {
		s := strconv.FormatInt(v, 10)
		mags = append(mags, numVal{"i" + s, int(v), rat(v, 1), "int", s}, numVal{"f" + s, float64(v), rat(v, 1), "float", ""})
	}
	// whole numbers beyond 2^53, some exactly representable as float64 and some not (those are judged within a tolerance), next to operands of every integer width
	for _, v := range []int64{1<<53 + 1, 1<<53 + 2, 1<<54 + 4, 1<<55 + 8, 1<<60 + 1<<9, 1<<60 + 1, 1 << 62, -(1<<53 + 2), -(1<<60 + 1<<8)} {
		s := strconv.FormatInt(v, 10)
		mags = append(mags, numVal{"i" + s, int(v), rat(v, 1), "int", s})
	}
	// whole-valued floats at and beyond the edge of int64 (what a chained product yields): 2^63, 2^64, -2^63, 2^63+2^11, 1e19 - all exact float64 values
	for _, f := range []float64{9223372036854775808, 18446744073709551616, -9223372036854775808, 9223372036854777856, 1e19, -18446744073709551616} {
		mags = append(mags, numVal{"f" + strconv.FormatFloat(f, 'f', 0, 64), f, new(big.Rat).SetFloat64(f), "float", ""})
	}
	smallOps := []numVal{{"u3", uint(3), rat(3, 1), "int", ""}, {"u64_7", uint64(7), rat(7, 1), "int", ""}, {"u8_3", uint8(3), rat(3, 1), "int", ""}, {"i8_m3", int8(-3), rat(-3, 1), "int", ""}, {"i64_3", int64(3), rat(3, 1), "int", ""}, {"u16_1", uint16(1), rat(1, 1), "int", ""},
		{"1", 1, rat(1, 1), "int", "1"}, {"-1", -1, rat(-1, 1), "int", "-1"}, {"2", 2, rat(2, 1), "int", "2"}, {"0.5", 0.5, rat(1, 2), "float", "0.5"}, {"3", 3, rat(3, 1), "int", "3"}, {"7.0", 7.0, rat(7, 1), "float", ""}}
	M := len(mags)
	fams = append(fams, explore.Family{Name: "scaled-magnitudes", Count: int64(M * len(smallOps) * len(binOps) * 2), Run: func(i int64, r *explore.Rec) {
		rx := radix{i}
		swap, oi, bi, ai := rx.next(2) == 1, rx.next(len(binOps)), rx.next(len(smallOps)), rx.next(M)
		a, b, op := mags[ai], smallOps[bi], binOps[oi]
		if swap {
			a, b = b, a
		}
		src := "{{ a | " + op + ": b }}"
		if !(exactF64(a.r) && exactF64(b.r)) && (op == "modulo" || op == "divided_by") {
			return // remainder and integer quotient jump: no tolerance is meaningful for an operand that no float64 holds
		}
		r.Eval()
		r.Transition()
		o := Render(c17.eng, src, map[string]any{"a": a.v, "b": b.v})
		judgeNum(r, "scaled:"+op, func() any { return map[string]any{"template": src, "a": a.name, "b": b.name} }, refBin(op, a.r, b), exactF64(a.r) && exactF64(b.r), o)
		r.State("scaled:" + op)
	}})
	fams = append(fams, explore.Family{Name: "scaled-unary", Count: int64(M * 5), Run: func(i int64, r *explore.Rec) {
		a, u := mags[int(i)/5], []string{"abs", "ceil", "floor", "round", "round: 2"}[int(i)%5]
		if new(big.Rat).Abs(a.r).Cmp(big.NewRat(1e15, 1)) >= 0 {
			return // float results from 1e15 on may print in exponent form (only parse-back is defined)
		}
		r.Eval()
		r.Transition()
		o := Render(c17.eng, "{{ a | "+u+" }}|{{ a | times: -1 | "+u+" }}", map[string]any{"a": a.v})
		want := a.r.Num().String()
		neg := "-" + want
		if u == "abs" {
			neg = want
		}
		if o.Panic != nil || o.Err != nil || o.Out != want+"|"+neg {
			r.Violation("wrong-value:scaled:"+u, map[string]any{"a": a.name, "filter": u}, want+"|"+neg, o.String())
		}
	}})
	// whole-valued floats no int64 holds, as a chained product yields them (2^62 | times: 2 ...): the unary filters leave them
	// alone (abs drops the sign), dividing by 1 and adding 0 too, modulo gives the exact remainder; the output may be
	// spelled with an exponent, so it is read back as a number
	beyond := []float64{9223372036854775808, 18446744073709551616, -9223372036854775808, -18446744073709551616, 9223372036854777856, 1e19, 1.5e300}
	bForms := []struct {
		f    string
		want func(x float64) float64
	}{{"ceil", func(x float64) float64 { return x }}, {"floor", func(x float64) float64 { return x }}, {"round", func(x float64) float64 { return x }}, {"abs", math.Abs},
		{"divided_by: 1", func(x float64) float64 { return x }}, {"divided_by: 1.0", func(x float64) float64 { return x }}, {"plus: 0", func(x float64) float64 { return x }}, {"times: 1", func(x float64) float64 { return x }},
		{"modulo: 7", func(x float64) float64 { return math.Mod(x, 7) }}, {"modulo: 1024", func(x float64) float64 { return 0 }}, {"divided_by: 2", func(x float64) float64 { return x / 2 }}, {"divided_by: one", func(x float64) float64 { return x }}}
	fams = append(fams, explore.Family{Name: "whole-floats-beyond-int64", Count: int64(len(beyond) * len(bForms) * 2), Run: func(i int64, r *explore.Rec) {
		rx := radix{i}
		chained, form, x := rx.next(2) == 1, bForms[rx.next(len(bForms))], beyond[rx.next(len(beyond))]
		src, bind := "{{ a | "+form.f+" }}", map[string]any{"a": x, "one": int64(1)}
		if chained {
			// the same number made in the template: half of it (exact) times 2
			src, bind = "{{ h | times: 2 | "+form.f+" }}", map[string]any{"h": x / 2, "one": int64(1)}
		}
		r.Eval()
		r.Transition()
		o := Render(c17.eng, src, bind)
		want := form.want(x)
		got, perr := strconv.ParseFloat(strings.TrimSpace(o.Out), 64)
		r.State("beyond-int64:" + form.f)
		r.Class("beyond-int64/" + o.Class())
		if o.Panic != nil || o.Err != nil || perr != nil || got != want {
			r.Violation("wrong-value:beyond-int64:"+strings.SplitN(form.f, ":", 2)[0], map[string]any{"template": src, "a": strconv.FormatFloat(x, 'f', 0, 64)}, strconv.FormatFloat(want, 'g', -1, 64), o.String())
		}
	}})
	chainLens := []int{4, 5, 7, 8, 9, 15, 16, 17, 31, 32, 33, 64, 100, 128, 129}
	fams = append(fams, explore.Family{Name: "scaled-chains", Count: int64(len(chainLens) * 3), Run: func(i int64, r *explore.Rec) {
		n, kind := chainLens[int(i)/3], int(i)%3
		step, per := " | plus: 1", rat(1, 1)
		switch kind {
		case 1:
			step, per = " | minus: 0.5", rat(-1, 2)
		case 2:
			step, per = " | times: 1 | plus: 2", rat(2, 1)
		}
		src := "{{ 3" + strings.Repeat(step, n) + " }}"
		want := new(big.Rat).Add(rat(3, 1), new(big.Rat).Mul(per, rat(int64(n), 1)))
		r.Eval()
		r.Transition()
		o := Render(c17.eng, src, map[string]any{})
		judgeNum(r, "scaled-chain", func() any { return map[string]any{"template": trunc80(src), "steps": n} }, numResult{vals: []*big.Rat{want}}, true, o)
	}})
	nestedNum := [][2]string{{"n | minus: 1 | divided_by: ARG", "items | size"}, {"n | plus: ARG", "items | size"}, {"n | times: 2 | minus: ARG", "m | abs"}, {"n | plus: 1 | modulo: ARG", "items | size"},
		{"n | divided_by: ARG | round: ARG", "items | size"}, {"n | abs | times: ARG", "f | ceil"}, {"str | plus: 0 | plus: ARG", "items | first"}, {"f | round: ARG", "items | size | minus: 2"}, {"n | minus: ARG | minus: ARG", "m | abs"}}
	fams = append(fams, explore.Family{Name: "filtered-expressions-as-arguments", Count: int64(len(nestedNum)), Run: func(i int64, r *explore.Rec) {
		c := nestedNum[i]
		r.Trace()
		r.Class("nested-arg")
		nestedArgLaw(r, c17.eng, "wrong-value:filtered-expression-as-argument", c[0], c[1], map[string]any{"n": 10, "m": -4, "f": 2.345, "items": []any{3, 1, 2}, "str": "7"})
	}})
	return fams
}

func dedupRats(in []*big.Rat) []*big.Rat {
	var out []*big.Rat
	for _, x := range in {
		dup := false
		for _, y := range out {
			if x.Cmp(y) == 0 {
				dup = true
			}
		}
		if !dup {
			out = append(out, x)
		}
	}
	return out
}

func init() {
	explore.Register(&explore.Prop{
		ID:    "C17",
		Level: "model_checking",
		Rule: "all pairs of the numeric universe (ints -12..12, +-2^31, +-(2^53-1), 2^53, each as int and float64; other widths; quarters k/4; numeric and non-numeric strings; nil) x 5 binary filters as variables and literals; " +
			"unary filters and round: 0..3 over the universe; all chains of 2 and 3 binary steps over {-3,-1,0,1,2,0.5,2.5}; scaled: 2^k and 2^k+-1 for k=20..52, 10^6..10^15 as int and float against 6 small operands in both positions, unary filters on them, chains of 4..129 equal steps; whole floats at and beyond the edge of int64 (2^63, 2^64, their negatives, 2^63+2^11, 1e19, 1.5e300) as scaled operands and through 12 filters, bound and made in the template (half | times: 2), output read back as a number; oracle = exact rational arithmetic (math/big); " +
			"class = (filter, operand kinds, verdict); state = (filter, operand kinds); transition = one filter application",
		Assumptions: []string{
			"exact equality is demanded only when operands and every acceptable exact result are float64-representable; otherwise relative error <= 1e-9",
			"for negative non-multiples integer division may floor or truncate and modulo may take either sign convention; nil operands and numeric strings as arguments are unspecified (must not panic)",
		},
		Setup:    func(string) { c17.eng = liquid.NewEngine() },
		Families: c17Families,
		Bound: func(string) string {
			return fmt.Sprintf("universe of %d operands, all pairs; chains of <=3 steps over 7 operands", len(c17Universe()))
		},
	})
}
