package props

import (
	"fmt"
	"strings"
	"unicode"

	"github.com/osteele/liquid"
	"verifmc/explore"
)

// C13 — whitespace-control hyphens strip exactly the adjacent literal whitespace.

var c13 struct{ eng *liquid.Engine }

// a tag of an item: text before the hyphen-able delimiters
type c13Tag struct {
	open, inner, close string // e.g. "{%", " if true ", "%}"
}

type c13Item struct {
	name  string
	tags  []c13Tag
	inner int // number of inner text pieces (between consecutive tags)
	// literal[i]: inner piece i is literal text rendered on the taken path
	literal []bool
	// render gives the item's output from its (already trimmed) inner pieces
	render func(inner []string) string
	light  bool
}

func tg(s string) c13Tag  { return c13Tag{"{%", " " + s + " ", "%}"} }
func obj(s string) c13Tag { return c13Tag{"{{", " " + s + " ", "}}"} }

var c13Items = []c13Item{
	{"object", []c13Tag{obj("1")}, 0, nil, func([]string) string { return "1" }, true},
	{"assign", []c13Tag{tg("assign v = 2")}, 0, nil, func([]string) string { return "" }, true},
	{"if-true", []c13Tag{tg("if true"), tg("endif")}, 1, []bool{true}, func(in []string) string { return in[0] }, true},
	{"if-false-else", []c13Tag{tg("if false"), tg("else"), tg("endif")}, 2, []bool{false, true}, func(in []string) string { return in[1] }, false},
	{"for", []c13Tag{tg("for i in (1..2)"), tg("endfor")}, 1, []bool{true}, func(in []string) string { return in[0] + in[0] }, true},
	{"comment", []c13Tag{tg("comment"), tg("endcomment")}, 1, []bool{false}, func(in []string) string { return "" }, true},
	{"raw", []c13Tag{tg("raw"), tg("endraw")}, 1, []bool{false}, func(in []string) string { return in[0] }, true},
	{"capture", []c13Tag{tg("capture c"), tg("endcapture"), obj("c")}, 2, []bool{true, true}, nil, false},
	// tight spellings: nothing between the marker and the content of the tag ({{-1-}}, {{-'s'-}}, {%-if true-%}); a
	// negative literal after a marker and a blank ({{- -1 -}})
	{"object-tight-digit", []c13Tag{{"{{", "1", "}}"}}, 0, nil, func([]string) string { return "1" }, true},
	{"object-tight-string", []c13Tag{{"{{", "'s'", "}}"}}, 0, nil, func([]string) string { return "s" }, true},
	{"object-negative", []c13Tag{{"{{", " -1 ", "}}"}}, 0, nil, func([]string) string { return "-1" }, true},
	{"if-tight", []c13Tag{{"{%", "if true", "%}"}, {"{%", "endif", "%}"}}, 1, []bool{true}, func(in []string) string { return in[0] }, true},
	{"object-tight-filter", []c13Tag{{"{{", "2|minus:1", "}}"}}, 0, nil, func([]string) string { return "1" }, true},
}

func init() {
	// capture: inner[0] is the captured body, inner[1] sits between endcapture and {{ c }}
	c13Items[7].render = func(in []string) string { return in[1] + in[0] }
}

var (
	c13W2 = []string{" ", " a "}
	c13W3 = []string{"", " ", " a\n"}
	c13W4 = []string{"", " ", "\n", " a "}
	c13W7 = []string{"", " ", "\n", " \t\n ", "a", " a ", "  a\n"}
)

type c13Shape struct {
	items        []int
	outer, inner []string
}

func (s c13Shape) counts() (nOuter, nInner, nHyph int) {
	nOuter = len(s.items) + 1
	for _, it := range s.items {
		nInner += c13Items[it].inner
		nHyph += 2 * len(c13Items[it].tags)
	}
	return
}

func (s c13Shape) total() int64 {
	o, in, h := s.counts()
	n := int64(1) << uint(h)
	for j := 0; j < o; j++ {
		n *= int64(len(s.outer))
	}
	for j := 0; j < in; j++ {
		n *= int64(len(s.inner))
	}
	return n
}

func trimL(s string) string { return strings.TrimLeftFunc(s, unicode.IsSpace) }
func trimR(s string) string { return strings.TrimRightFunc(s, unicode.IsSpace) }
func squeeze(s string) string {
	return strings.Map(func(r rune) rune {
		if unicode.IsSpace(r) {
			return -1
		}
		return r
	}, s)
}

// c13Build builds: the source with hyphens; the source without hyphens; the source without hyphens
// and with the adjacent whitespace deleted; the reference rendering of the latter two; and whether
// every present hyphen faces a non-empty literal text piece rendered on the taken path.
func (s c13Shape) build(i int64) (withH, noH, trimmedSrc, refNoH, refTrimmed string, allFaceText bool, states []string) {
	nO, nI, nH := s.counts()
	rx := radix{i}
	mask := rx.next(1 << uint(nH))
	outer := make([]string, nO)
	for j := range outer {
		outer[j] = s.outer[rx.next(len(s.outer))]
	}
	inner := make([]string, nI)
	for j := range inner {
		inner[j] = s.inner[rx.next(len(s.inner))]
	}
	// linearise: pieces and tags alternate: outer[0] tag .. tag outer[1] ...
	type piece struct {
		text    string
		literal bool
		item    int // -1 for outer
		idx     int
	}
	var pieces []piece
	var tags []c13Tag
	ii := 0
	pieces = append(pieces, piece{outer[0], true, -1, 0})
	for k, it := range s.items {
		item := c13Items[it]
		for t, tag := range item.tags {
			tags = append(tags, tag)
			if t < len(item.tags)-1 {
				pieces = append(pieces, piece{inner[ii], item.literal[t], k, t})
				ii++
			}
		}
		pieces = append(pieces, piece{outer[k+1], true, -1, k + 1})
	}
	// hyphen bits: tag t has left bit 2t, right bit 2t+1
	left := func(t int) bool { return mask&(1<<uint(2*t)) != 0 }
	right := func(t int) bool { return mask&(1<<uint(2*t+1)) != 0 }
	allFaceText = true
	trimmed := make([]string, len(pieces))
	for p := range pieces {
		trimmed[p] = pieces[p].text
	}
	for t := range tags {
		if left(t) {
			if pieces[t].text == "" || !pieces[t].literal {
				allFaceText = false
			}
			trimmed[t] = trimR(trimmed[t])
		}
		if right(t) {
			if pieces[t+1].text == "" || !pieces[t+1].literal {
				allFaceText = false
			}
			trimmed[t+1] = trimL(trimmed[t+1])
		}
	}
	var a, b, c strings.Builder
	for p := range pieces {
		a.WriteString(pieces[p].text)
		b.WriteString(pieces[p].text)
		c.WriteString(trimmed[p])
		if p < len(tags) {
			t := tags[p]
			lh, rh := "", ""
			if left(p) {
				lh = "-"
			}
			if right(p) {
				rh = "-"
			}
			a.WriteString(t.open + lh + t.inner + rh + t.close)
			b.WriteString(t.open + t.inner + t.close)
			c.WriteString(t.open + t.inner + t.close)
			states = append(states, fmt.Sprintf("%v/%v/%s", p > 0 && right(p-1), left(p), classify(pieces[p].text)))
		}
	}
	// reference renderings (generator's own knowledge of each item)
	render := func(texts []string) string {
		var sb strings.Builder
		p := 0
		sb.WriteString(texts[p])
		p++
		for _, it := range s.items {
			item := c13Items[it]
			in := texts[p : p+item.inner]
			p += item.inner
			sb.WriteString(item.render(in))
			sb.WriteString(texts[p])
			p++
		}
		return sb.String()
	}
	plain := make([]string, len(pieces))
	for p := range pieces {
		plain[p] = pieces[p].text
	}
	return a.String(), b.String(), c.String(), render(plain), render(trimmed), allFaceText, states
}

// abbreviateWS replaces long whitespace runs by their length (for readable reports).
func abbreviateWS(s string) string {
	var sb strings.Builder
	run := 0
	flush := func() {
		if run > 8 {
			fmt.Fprintf(&sb, "<%d ws>", run)
		} else if run > 0 {
			sb.WriteString(strings.Repeat(" ", run))
		}
		run = 0
	}
	for _, r := range s {
		if unicode.IsSpace(r) {
			run++
			continue
		}
		flush()
		sb.WriteRune(r)
	}
	flush()
	return sb.String()
}

func classify(s string) string {
	switch {
	case s == "":
		return "empty"
	case squeeze(s) == "":
		return "ws-only"
	}
	return "mixed"
}

func c13Families(tier string) []explore.Family {
	var shapes []c13Shape
	thorough := tier == "thorough"
	for it := range c13Items {
		w := c13W4
		if thorough {
			w = c13W7
		}
		shapes = append(shapes, c13Shape{[]int{it}, w, w})
	}
	var light []int
	for it, item := range c13Items {
		if item.light {
			light = append(light, it)
		}
	}
	for _, a := range light {
		for _, b := range light {
			if thorough {
				shapes = append(shapes, c13Shape{[]int{a, b}, c13W3, c13W3})
			} else {
				shapes = append(shapes, c13Shape{[]int{a, b}, c13W2, c13W2})
			}
		}
	}
	// the middle piece matters most for pairs: all of W4/W7 between two single-tag items and block ends
	for _, a := range []int{0, 2, 4} {
		for _, b := range []int{0, 1, 2} {
			w := c13W4
			if thorough {
				w = c13W7
			}
			shapes = append(shapes, c13Shape{[]int{a, b}, w, c13W2[:1]})
		}
	}
	if thorough {
		for _, a := range []int{0, 1, 2} {
			for _, b := range []int{0, 1, 2} {
				for _, c := range []int{0, 1, 2} {
					shapes = append(shapes, c13Shape{[]int{a, b, c}, c13W2, c13W2})
				}
			}
		}
		// heavy items paired with the object
		for _, h := range []int{3, 7} {
			shapes = append(shapes, c13Shape{[]int{h, 0}, c13W2, c13W2}, c13Shape{[]int{0, h}, c13W2, c13W2})
		}
	}
	// scaled: very long whitespace runs (around 64..65536) next to every marker of the single-item shapes
	for _, n := range []int{63, 64, 65, 255, 256, 257, 1023, 1024, 1025, 4095, 4096, 4097, 8191, 8192, 8193, 65535, 65536, 65537} {
		long := strings.Repeat(" ", n/2) + "\n" + strings.Repeat("\t", n-n/2-1)
		for _, it := range []int{0, 2, 4, 7} {
			shapes = append(shapes, c13Shape{[]int{it}, []string{long, "a" + long, long + "a"}, []string{long}})
		}
	}
	for it := 8; it <= 12; it++ {
		shapes = append(shapes, c13Shape{[]int{it}, c13W4, c13W2[:1]})
		shapes = append(shapes, c13Shape{[]int{it, 0}, c13W3, c13W2[:1]}, c13Shape{[]int{2, it}, c13W3, c13W2[:1]})
	}
	// letters whose UTF-8 encoding ends in a byte that IS whitespace when read as Latin-1 (0x85 NEL, 0xA0 NBSP): à Å ą Š;
	// and other multi-byte neighbours: trimming works on characters, never on bytes
	wu := []string{"à", " à ", "Å\n", "\tą", "Š", " 日 ", "é ", "\n😀"}
	for _, it := range []int{0, 2, 4, 7} {
		shapes = append(shapes, c13Shape{[]int{it}, wu, c13W2[:1]})
	}
	shapes = append(shapes, c13Shape{[]int{4}, c13W2, wu}, c13Shape{[]int{5}, c13W2, wu})
	var fams []explore.Family
	for si, sh := range shapes {
		sh := sh
		var names []string
		for _, it := range sh.items {
			names = append(names, c13Items[it].name)
		}
		name := fmt.Sprintf("%02d:%s/W%d", si, strings.Join(names, "+"), len(sh.outer))
		if len(sh.outer[0]) > 60 {
			name = fmt.Sprintf("%02d:%s/long-whitespace-%d", si, strings.Join(names, "+"), len(sh.outer[0]))
		}
		fams = append(fams, explore.Family{Name: name, Count: sh.total(), Run: func(i int64, r *explore.Rec) {
			withH, noH, trimmedSrc, refNoH, refTrimmed, faces, states := sh.build(i)
			for _, st := range states {
				r.State(st)
				r.Transition()
			}
			r.Eval()
			o := Render(c13.eng, withH, map[string]any{})
			desc := func() any {
				if len(withH) > 400 {
					return map[string]any{"template_abbreviated": abbreviateWS(withH), "note": "runs of whitespace are shown as <N ws>"}
				}
				return map[string]any{"template": withH, "without_hyphens": noH}
			}
			if o.Panic != nil || o.Err != nil {
				r.Violation("fails", desc(), "output", o.String())
				return
			}
			r.Trace()
			if withH == noH {
				// (W0) a template without hyphens loses nothing
				r.Class("W0")
				if o.Out != refNoH {
					r.Violation("W0:no-hyphen-loses-nothing", desc(), fmt.Sprintf("%q", refNoH), fmt.Sprintf("%q", o.Out))
				}
				return
			}
			// (W2) in all cases only whitespace is removed
			if squeeze(o.Out) != squeeze(refNoH) {
				r.Violation("W2:only-whitespace-removed", desc(), fmt.Sprintf("same non-whitespace as %q", refNoH), fmt.Sprintf("%q", o.Out))
				return
			}
			if faces {
				// (W1) equals the template with hyphens dropped and the adjacent whitespace deleted
				r.Class("W1")
				if o.Out != refTrimmed {
					r.Violation("W1:adjacent-whitespace-exactly", desc(), abbreviateWS(fmt.Sprintf("%q", refTrimmed)), abbreviateWS(fmt.Sprintf("%q", o.Out)))
					return
				}
				// and the implementation agrees with itself on the rewritten template (the statement's own wording)
				r.Eval()
				o2 := Render(c13.eng, trimmedSrc, map[string]any{})
				if o2.Out != o.Out {
					r.Violation("W1:differential", map[string]any{"template": withH, "rewritten": trimmedSrc}, fmt.Sprintf("%q", o2.Out), fmt.Sprintf("%q", o.Out))
				}
			} else {
				r.Class("W2-only")
			}
			if r.WantSample() {
				r.Sample(map[string]any{"template": withH, "observed": o.Out, "every_hyphen_faces_text": faces})
			}
		}})
	}
	return fams
}

func init() {
	explore.Register(&explore.Prop{
		ID:    "C13",
		Level: "model_checking",
		Rule: "skeletons of 1-2 (quick) / 1-3 (thorough) tag items from {object, assign, if, if/else, for, comment, raw, capture+print} separated and surrounded by text pieces from W (quick 4, thorough 7 pieces for single items; 2-3 pieces for pairs/triples), block bodies filled the same way; plus single items surrounded by whitespace runs of 63..65537 characters (18 lengths around powers of two); for every skeleton ALL 2^k subsets of its k<=12 hyphen positions are rendered; " +
			"oracle = token-level reference trimmer (W1, when every hyphen faces non-empty literal text on the taken path), whitespace-erasure equality (W2, always), identity without hyphens (W0); " +
			"state = (previous tag has right hyphen, next tag has left hyphen, class of the text piece between); transition = one (text piece, neighbouring markers) configuration rendered",
		Assumptions: []string{
			"raw and comment bodies and untaken branches are not 'literal text' for W1 (W2 still applies)",
			"a hyphen adjacent to another tag (empty text piece) is outside W1's precondition",
		},
		Setup:    func(string) { c13.eng = liquid.NewEngine() },
		Families: c13Families,
		Bound: func(tier string) string {
			if tier == "thorough" {
				return "single items over W7; light pairs over W3; triples of {object, assign, if} over W2; all hyphen subsets"
			}
			return "single items over W4; light pairs over W2; all hyphen subsets"
		},
	})
}
