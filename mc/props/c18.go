package props

import (
	"fmt"
	"math"
	"reflect"
	"regexp"
	"sort"
	"strings"

	yaml "gopkg.in/yaml.v2"

	"github.com/osteele/liquid"
	"verifmc/explore"
	"verifmc/ref"
	"verifmc/univ"
)

// C18 — output depends on a binding's Liquid value, not on its Go representation.

// logical environment
var c18Env = map[string]ref.V{
	"n":  ref.Int(3),
	"k":  ref.Int(200),
	"g":  ref.Int(-2),
	"f":  ref.Float(1.5),
	"w":  ref.Float(2),
	"s":  "ab",
	"e":  "",
	"u":  "é x",
	"t":  true,
	"z":  nil,
	"l":  univ.L(ref.Int(1), ref.Int(2), ref.Int(3)),
	"l2": univ.L(ref.Int(3), ref.Int(1), ref.Int(1)),
	"ls": univ.L("b", "a"),
	"ld": univ.L("a", "b", "a", "c", "b"),
	"lf": univ.L(ref.Float(2.5), ref.Float(0.5)),
	"ln": univ.L(univ.L(ref.Int(1)), univ.L(ref.Int(2), ref.Int(3))),
	"le": univ.L(),
	"lw": univ.L("a ", " "),  // elements that are, or end with, whitespace
	"lv": univ.L(" ", "\tb"), // ... or begin with it
	"m":  ref.NewMap("a", ref.Int(1), "b", ref.Int(2)),
	"mm": ref.NewMap("a", "x", "l", univ.L(ref.Int(1), ref.Int(2)), "n", ref.NewMap("d", ref.Int(7))),
	"lm": univ.L(ref.NewMap("k", ref.Int(2)), ref.NewMap("k", ref.Int(1))),
	// a list beyond small-size thresholds (sorting, hashing fast paths): 30 numbers with duplicates
	"lb": func() ref.List {
		var l ref.List
		for i := 0; i < 30; i++ {
			l = append(l, ref.Int(int64((i*7)%11)))
		}
		return l
	}(),
}

type c18Tpl struct {
	src        string
	noBytes    bool // a string binding is used other than printed / string-filter input
	noMapSlice bool // a map binding is used other than for lookup and size
	noElemPtr  bool // map values are reached other than by property lookup
}

// the pool: each binding only in positions the statement names
var c18Templates = []c18Tpl{
	// numbers: print, compare, arithmetic
	{src: "{{ n }}|{{ k }}|{{ g }}|{{ f }}|{{ w }}"},
	{src: "{{ n | plus: 1 }}|{{ 10 | minus: n }}|{{ n | times: g }}|{{ f | plus: n }}|{{ k | divided_by: n }}|{{ 7 | divided_by: n }}|{{ 7 | divided_by: w }}|{{ k | modulo: n }}"},
	{src: "{{ g | abs }}|{{ f | ceil }}|{{ f | floor }}|{{ f | round }}|{{ w | round: n }}"},
	{src: "{% if n == 3 %}A{% endif %}{% if n != k %}B{% endif %}{% if g < n %}C{% endif %}{% if k >= n %}D{% endif %}{% if f > n %}E{% else %}F{% endif %}{% if w == 2 %}G{% endif %}{% if n == w %}H{% else %}I{% endif %}"},
	{src: "{% case n %}{% when 1 %}one{% when 3 %}three{% else %}other{% endcase %}{% case w %}{% when 2 %}two{% endcase %}"},
	// longer cases whose earlier clauses list the same number in another kind: the first clause that is == wins
	{src: "{% case n %}{% when 1.0 %}one{% when 3.0 %}three-point-oh{% when 2 %}two{% when 3 %}three{% else %}other{% endcase %}|{% case w %}{% when 4 %}a{% when 2.5 %}b{% when 2.0, 7 %}c{% when 2 %}d{% when 1 %}e{% endcase %}|" +
		"{% case f %}{% when 1 %}a{% when 2 %}b{% when 3 %}c{% when '1.5' %}d{% when 1.5 %}e{% when 1.50 %}f{% endcase %}|{% case g %}{% when 0 %}a{% when 1 %}b{% when 2 %}c{% when 3 %}d{% when -2.0 %}e{% when -2 %}f{% endcase %}"},
	{src: "{% if n %}T{% endif %}{% unless g %}U{% endunless %}{% if n and f %}V{% endif %}"},
	{src: "{{ l | sort | join: ',' }}|{{ l2 | sort | join: ',' }}|{{ lf | sort | join: ',' }}|{{ l2 | uniq | join: ',' }}|{{ l | reverse | join: ',' }}"},
	{src: "{% if l contains f %}A{% else %}B{% endif %}{% if l contains k %}C{% else %}D{% endif %}{% if l contains g %}E{% else %}F{% endif %}{% if lf contains n %}G{% else %}H{% endif %}{% if lf contains 2.5 %}I{% endif %}{% if l contains 2.0 %}J{% endif %}{% if l contains '2' %}K{% else %}L{% endif %}{% if ls contains n %}M{% else %}N{% endif %}"},
	{src: "{{ lb | sort | join: ',' }}|{{ lb | uniq | join: ',' }}|{{ lb | sort | uniq | size }}|{% if lb contains 10 %}A{% endif %}{% if lb contains 5.0 %}B{% endif %}|{{ lb | reverse | first }}|{{ lb[29] }}|{{ lb | join: '' | size }}"},
	{src: "{{ ld | uniq | join: ',' }}|{{ ld | uniq | size }}|{{ ld | sort | uniq | join }}|{{ ld | reverse | uniq | join }}|{% if ld contains 'c' %}C{% endif %}"},
	{src: "{% if l contains 2 %}A{% endif %}{% if l contains n %}B{% endif %}{% if l2 contains 2 %}C{% else %}D{% endif %}{% if l == l %}E{% endif %}{% if l == l2 %}F{% else %}G{% endif %}"},
	// integers where a COUNT or a POSITION is meant: an index, a loop's limit / offset / cols, the bounds of a range
	{src: "{{ l[g] }}|{{ lb[n] }}|{{ l[0] }}{% for x in lb limit: n %}{{ x }},{% endfor %}|{% for x in lb offset: n limit: n %}{{ x }},{% endfor %}|{% tablerow x in l cols: n %}{{ x }}{% endtablerow %}|{% for x in (g..n) %}{{ x }}{% endfor %}|{% for x in (1..n) reversed %}{{ x }}{% endfor %}|{% assign r = (g..n) %}{{ r | size }}"},
	// strings
	{src: "{{ s }}|{{ e }}|{{ u }}"},
	{src: "{{ s | upcase }}|{{ u | capitalize }}|{{ s | append: 'x' }}|{{ u | size }}|{{ s | slice: 1 }}|{{ u | truncate: 2, '' }}|{{ s | replace: 'a', 'z' }}|{{ e | default: 'dflt' }}", noBytes: true},
	{src: "{{ s | upcase }}|{{ u | capitalize }}|{{ s | append: 'x' }}|{{ s | slice: 1 }}|{{ s | replace: 'a', 'z' }}|{{ u | split: ' ' | join: '+' }}|{{ s | prepend: 'p' }}|{{ u | url_encode }}"},
	{src: "{{ 'x' | append: s }}|{{ 'a,ab' | split: s | size }}|{{ ls | join: s }}", noBytes: true},
	{src: "{% if s == 'ab' %}A{% endif %}{% if s contains 'b' %}B{% endif %}{% if e %}C{% endif %}{% if s < u %}D{% endif %}{% if s == u %}E{% else %}F{% endif %}{{ m[s] }}{{ mm.a | append: s }}", noBytes: true},
	{src: "{% case s %}{% when 'ab' %}W{% else %}E{% endcase %}", noBytes: true},
	// bool / nil
	{src: "{{ t }}|{{ z }}|{% if t %}A{% endif %}{% if z %}B{% else %}C{% endif %}{% if t == true %}D{% endif %}{% if z == nil %}E{% endif %}{{ z | default: 'd' }}|{{ t | append: '!' }}"},
	// lists
	{src: "{{ l }}|{{ ls }}|{{ ln }}|{{ le }}"},
	{src: "{% for x in l %}{{ x }},{% endfor %}|{% for x in ls reversed %}{{ x }}{% endfor %}|{% for x in ln %}[{% for y in x %}{{ y }}{% endfor %}]{% endfor %}|{% for x in le %}x{% else %}empty{% endfor %}|{% for x in l limit: 2 offset: 1 %}{{ x }}{% endfor %}"},
	{src: "{% tablerow x in l cols: 2 %}{{ x }}{% endtablerow %}"},
	{src: "{{ l | join: ',' }}|{{ ls | join }}|{{ l | first }}|{{ l | last }}|{{ l | size }}|{{ ls | sort | join }}|{{ ls | sort_natural | join }}|{{ ln | first | join }}|{{ le | first }}|{{ l | concat: ls | join }}|{{ l | compact | size }}"},
	{src: "{{ l[0] }}|{{ l[-1] }}|{{ l.first }}|{{ l.last }}|{{ l.size }}|{{ ln[1][0] }}|{{ ln.last.first }}|{{ l[n] }}|{{ le.size }}|{{ ls[1] }}"},
	{src: "{{ lm | map: 'k' | join }}|{{ lm[0].k }}|{{ lm.first.k }}|{% for x in lm %}{{ x.k }}{% endfor %}|{{ lm | size }}|{{ lm[1]['k'] }}|{{ lm.last.size }}"},
	{src: "{{ lm | sort: 'k' | map: 'k' | join }}|{{ lm | map: 'k' | sort | join }}", noMapSlice: true, noElemPtr: true},
	{src: "{% if l %}A{% endif %}{% if le %}B{% endif %}{% if ls contains 'a' %}C{% endif %}{% if ln.first == ln[0] %}D{% endif %}{% assign q = l %}{{ q | join }}{% capture c %}{{ ls | join }}{% endcapture %}{{ c }}"},
	// arrays of arrays and of maps as filter input: the nested values are held in every representation too
	{src: "{{ ln | join: ',' }}|{{ ln | reverse | join: ',' }}|{{ ln | first }}|{{ ln | last | join: '+' }}|{{ ln | concat: ln | size }}|{{ ln | uniq | size }}|{{ ln | map: 'x' | size }}"},
	{src: "{{ lm | join: ',' }}|{{ lm | reverse | first }}|{{ lm | first }}|{{ mm.l | join: ',' }}|{{ lm | uniq | size }}", noMapSlice: true, noElemPtr: true},
	// printing next to whitespace-control markers: what a marker strips cannot depend on how the value is held
	{src: "[{{ lw }}{{- s }}]|[{{ s -}}{{ lv }}]|[{{ lw -}} ]|[ {{- lv }}]|[{{ lv }}{{- s }}]|[{{ s -}}{{ lw }}]|{% for x in lw %}<{{ x -}}{{- x }}>{% endfor %}|[{{ lw | join: '' }}{{- s }}]|[{{ u }}{{- s }}]|{{ lw }}{%- if t -%}{{ lw }}{%- endif -%}{{ lw }}"},
	{src: "[{{ ls }}{{- s }}]|[{{ l -}} {{ ln }}]|[{{ le }}{{- s }}]|[{{ e }}{{- s }}]|[{{ z }}{{- s }}]"},
	// maps: lookup and size
	{src: "{{ m.a }}|{{ m['b'] }}|{{ m.size }}|{{ m.zz }}|{{ mm.a }}|{{ mm.l | join }}|{{ mm.l.first }}|{{ mm.n.d }}|{{ mm['n']['d'] }}|{{ mm.size }}"},
	{src: "{{ m.a | plus: m.b }}|{% if m.a == 1 %}A{% endif %}{% if mm.a == 'x' %}B{% endif %}{% for x in mm.l %}{{ x }}{% endfor %}{% if m.zz %}C{% else %}D{% endif %}"},
	// maps as maps elsewhere
	{src: "{% if m contains 'a' %}A{% endif %}{% if m contains 'q' %}B{% else %}C{% endif %}{% if m %}D{% endif %}{% for kv in m %}{{ kv[0] }}={{ kv[1] }};{% endfor %}", noMapSlice: true, noElemPtr: true},
	{src: "{% if m == m %}A{% endif %}{% assign q = m %}{{ q.a }}{{ m | size }}", noMapSlice: true, noElemPtr: true},
	{src: "{{ mm.n }}|{{ m }}", noMapSlice: true, noElemPtr: true},
}

// a deviation: node path -> representation name
type c18Dev struct {
	path string
	repr string
}

type c18Node struct {
	path  string
	v     ref.V
	top   bool // top-level binding
	inMap bool // value of a map entry (reached by property lookup)
}

func c18Nodes() []c18Node {
	var out []c18Node
	var walk func(path string, v ref.V, top, inMap bool)
	walk = func(path string, v ref.V, top, inMap bool) {
		out = append(out, c18Node{path, v, top, inMap})
		switch x := v.(type) {
		case ref.List:
			for i, e := range x {
				walk(fmt.Sprintf("%s[%d]", path, i), e, false, false)
			}
		case *ref.Map:
			for _, k := range x.Keys {
				walk(path+"."+k, x.Vals[k], false, true)
			}
		}
	}
	var names []string
	for k := range c18Env {
		names = append(names, k)
	}
	sort.Strings(names)
	for _, k := range names {
		walk(k, c18Env[k], true, false)
	}
	return out
}

// representations available at a node (the default is not listed)
func c18Reprs(n c18Node, t c18Tpl) []string {
	var out []string
	ptrOK := n.top || (n.inMap && !t.noElemPtr)
	switch x := n.v.(type) {
	case nil:
		out = append(out, "drop", "pdrop")
	case bool:
		out = append(out, "drop")
	case ref.Num:
		if !x.Float {
			v := x.R.Num().Int64()
			out = append(out, "int64", "int32", "int16")
			if v >= math.MinInt8 && v <= math.MaxInt8 {
				out = append(out, "int8")
			}
			if v >= 0 {
				out = append(out, "uint", "uint64", "uint32", "uint16")
				if v <= math.MaxUint8 {
					out = append(out, "uint8")
				}
			}
		} else {
			f, _ := x.R.Float64()
			if float64(float32(f)) == f {
				out = append(out, "float32")
			}
		}
		out = append(out, "drop", "pdrop", "drop-of-drop")
		if ptrOK {
			out = append(out, "ptr", "ptr-to-ptr", "ptr-to-pdrop", "ptr-to-drop")
		}
	case string:
		out = append(out, "drop", "pdrop", "drop-of-drop")
		if ptrOK {
			out = append(out, "ptr", "ptr-to-ptr", "ptr-to-pdrop", "ptr-to-drop")
		}
		if !t.noBytes && n.top {
			out = append(out, "bytes")
		}
	case ref.List:
		out = append(out, "drop", "pdrop")
		if c18Homogeneous(x) != "" {
			out = append(out, "typed", "array")
		}
		out = append(out, "drop-of-drop")
		if ptrOK {
			out = append(out, "ptr", "ptr-to-ptr", "ptr-to-pdrop", "ptr-to-drop")
		}
	case *ref.Map:
		out = append(out, "drop", "pdrop")
		if c18HomogeneousMap(x) != "" {
			out = append(out, "typed")
		}
		out = append(out, "drop-of-drop")
		if ptrOK {
			out = append(out, "ptr", "ptr-to-ptr", "ptr-to-pdrop", "ptr-to-drop")
		}
		if !t.noMapSlice {
			out = append(out, "mapslice")
		}
	}
	return out
}

func c18Homogeneous(l ref.List) string {
	kind := ""
	for _, e := range l {
		k := ""
		switch x := e.(type) {
		case ref.Num:
			k = "int"
			if x.Float {
				k = "float"
			}
		case string:
			k = "string"
		default:
			return ""
		}
		if kind != "" && k != kind {
			return ""
		}
		kind = k
	}
	return kind
}

func c18HomogeneousMap(m *ref.Map) string {
	var l ref.List
	for _, k := range m.Keys {
		l = append(l, m.Vals[k])
	}
	if len(l) == 0 {
		return ""
	}
	return c18Homogeneous(l)
}

// c18Build realises a logical value under a set of deviations.
func c18Build(path string, v ref.V, devs map[string]string) any {
	repr := devs[path]
	var base any
	switch x := v.(type) {
	case nil:
		base = nil
	case bool:
		base = x
	case ref.Num:
		if x.Float {
			f, _ := x.R.Float64()
			base = f
			if repr == "float32" {
				base = float32(f)
			}
		} else {
			n := x.R.Num().Int64()
			base = int(n)
			switch repr {
			case "int64":
				base = n
			case "int32":
				base = int32(n)
			case "int16":
				base = int16(n)
			case "int8":
				base = int8(n)
			case "uint":
				base = uint(n)
			case "uint64":
				base = uint64(n)
			case "uint32":
				base = uint32(n)
			case "uint16":
				base = uint16(n)
			case "uint8":
				base = uint8(n)
			}
		}
	case string:
		base = x
		if repr == "bytes" {
			base = []byte(x)
		}
	case ref.List:
		elems := make([]any, len(x))
		for i, e := range x {
			elems[i] = c18Build(fmt.Sprintf("%s[%d]", path, i), e, devs)
		}
		base = elems
		if repr == "typed" || repr == "array" {
			var ts reflect.Value
			switch c18Homogeneous(x) {
			case "int":
				s := make([]int, len(x))
				for i, e := range x {
					s[i] = int(e.(ref.Num).R.Num().Int64())
				}
				ts = reflect.ValueOf(s)
			case "float":
				s := make([]float64, len(x))
				for i, e := range x {
					s[i], _ = e.(ref.Num).R.Float64()
				}
				ts = reflect.ValueOf(s)
			case "string":
				s := make([]string, len(x))
				for i, e := range x {
					s[i] = e.(string)
				}
				ts = reflect.ValueOf(s)
			}
			if repr == "array" {
				arr := reflect.New(reflect.ArrayOf(ts.Len(), ts.Type().Elem())).Elem()
				reflect.Copy(arr, ts)
				base = arr.Interface()
			} else {
				base = ts.Interface()
			}
		}
	case *ref.Map:
		m := map[string]any{}
		for _, k := range x.Keys {
			m[k] = c18Build(path+"."+k, x.Vals[k], devs)
		}
		base = m
		switch repr {
		case "typed":
			switch c18HomogeneousMap(x) {
			case "int":
				t := map[string]int{}
				for _, k := range x.Keys {
					t[k] = int(x.Vals[k].(ref.Num).R.Num().Int64())
				}
				base = t
			case "string":
				t := map[string]string{}
				for _, k := range x.Keys {
					t[k] = x.Vals[k].(string)
				}
				base = t
			case "float":
				t := map[string]float64{}
				for _, k := range x.Keys {
					t[k], _ = x.Vals[k].(ref.Num).R.Float64()
				}
				base = t
			}
		case "mapslice":
			var ms yaml.MapSlice
			for _, k := range x.Keys {
				ms = append(ms, yaml.MapItem{Key: k, Value: m[k]})
			}
			base = ms
		}
	}
	switch repr {
	case "drop":
		return univ.Drop{V: base}
	case "pdrop":
		return &univ.PDrop{V: base}
	case "ptr":
		p := reflect.New(reflect.TypeOf(base))
		p.Elem().Set(reflect.ValueOf(base))
		return p.Interface()
	// representations nested in each other
	case "drop-of-drop":
		return univ.Drop{V: &univ.PDrop{V: base}}
	case "ptr-to-ptr":
		p := reflect.New(reflect.TypeOf(base))
		p.Elem().Set(reflect.ValueOf(base))
		pp := reflect.New(p.Type())
		pp.Elem().Set(p)
		return pp.Interface()
	case "ptr-to-pdrop":
		p := &univ.PDrop{V: base}
		return &p
	case "ptr-to-drop":
		return &univ.Drop{V: base}
	}
	return base
}

var c18 struct {
	eng   *liquid.Engine
	nodes []c18Node
	cases []c18Case
	tier  string
}

type c18Case struct {
	t    int
	devs []c18Dev
}

var identRe = regexp.MustCompile(`[a-z][a-z0-9]*`)

func c18Cases(tier string) []c18Case {
	if c18.cases != nil && c18.tier == tier {
		return c18.cases
	}
	nodes := c18Nodes()
	bound := 1
	if tier == "thorough" {
		bound = 3
	}
	var out []c18Case
	for ti, t := range c18Templates {
		used := map[string]bool{}
		for _, id := range identRe.FindAllString(t.src, -1) {
			used[id] = true
		}
		var opts []c18Dev
		for _, n := range nodes {
			root := n.path
			if i := strings.IndexAny(root, ".["); i >= 0 {
				root = root[:i]
			}
			if !used[root] {
				continue
			}
			for _, r := range c18Reprs(n, t) {
				opts = append(opts, c18Dev{n.path, r})
			}
		}
		for i, a := range opts {
			out = append(out, c18Case{ti, []c18Dev{a}})
			if bound >= 2 {
				for j, b := range opts[i+1:] {
					if b.path == a.path || c18Conflict(a, b) {
						continue
					}
					out = append(out, c18Case{ti, []c18Dev{a, b}})
					if bound >= 3 {
						for _, c := range opts[i+1+j+1:] {
							if c.path == a.path || c.path == b.path || c18Conflict(a, c) || c18Conflict(b, c) {
								continue
							}
							out = append(out, c18Case{ti, []c18Dev{a, b, c}})
						}
					}
				}
			}
		}
	}
	c18.cases, c18.tier = out, tier
	return out
}

// a typed/array container cannot hold specially represented elements
func c18Conflict(a, b c18Dev) bool {
	under := func(parent, child c18Dev) bool {
		return strings.HasPrefix(child.path, parent.path) && len(child.path) > len(parent.path) && (parent.repr == "typed" || parent.repr == "array")
	}
	return under(a, b) || under(b, a)
}

func c18BuildEnv(devs []c18Dev) map[string]any {
	dm := map[string]string{}
	for _, d := range devs {
		dm[d.path] = d.repr
	}
	b := map[string]any{}
	for k, v := range c18Env {
		b[k] = c18Build(k, v, dm)
	}
	return b
}

func c18Families(tier string) []explore.Family {
	cases := c18Cases(tier)
	base := map[int]Outcome{}
	return []explore.Family{{Name: "representation-deviations", Count: int64(len(cases)), Run: func(i int64, r *explore.Rec) {
		c := cases[i]
		t := c18Templates[c.t]
		b0, ok := base[c.t]
		if !ok {
			r.Eval()
			b0 = Render(c18.eng, t.src, c18BuildEnv(nil))
			if b0.Err != nil || b0.Panic != nil {
				panic(explore.BaselineFailure{Msg: "harness: generic representation fails: " + t.src + ": " + b0.String()})
			}
			base[c.t] = b0
		}
		r.Eval()
		r.Transition()
		r.Trace()
		o := Render(c18.eng, t.src, c18BuildEnv(c.devs))
		var reprs []string
		for _, d := range c.devs {
			reprs = append(reprs, d.repr)
		}
		sort.Strings(reprs)
		r.State(strings.Join(reprs, "+"))
		r.Class(fmt.Sprintf("t%d/%s", c.t, strings.Join(reprs, "+")))
		if o.Sig() != b0.Sig() {
			var ds []string
			for _, d := range c.devs {
				ds = append(ds, d.path+" as "+d.repr)
			}
			r.Violation("representation:"+strings.Join(reprs, "+")+":"+c18Where(o, b0, t.src), map[string]any{"template": t.src, "deviations": ds, "logical_bindings": c18EnvDesc()}, b0.String(), o.String())
		}
		if r.WantSample() {
			r.Sample(map[string]any{"template": t.src, "deviations": fmt.Sprint(c.devs), "observed": trunc80(o.String())})
		}
	}}, c18ExplicitFamily(), c18MadeFamily()}
}

// ---- second family: values that only SOME representations can hold, written out as explicit equivalence classes:
// empty inner collections held as nil typed slices/maps, and Drops whose Go value is nil (a nil *T, a nil named
// slice or map) but whose ToLiquid is well defined on a nil receiver. Every member of a class renders every
// template like the first (generic) member.
type c18NilUser struct{ name string }

func (u *c18NilUser) ToLiquid() any {
	if u == nil {
		return "guest"
	}
	return u.name
}

type c18Tag struct{ name string }

func (t c18Tag) ToLiquid() any { return t.name }

type c18Tags []string

func (t c18Tags) ToLiquid() any { return map[string]any{"count": len(t), "list": []string(t)} }

type c18Opts map[string]any

func (o c18Opts) ToLiquid() any {
	if o == nil {
		return []any{"default"}
	}
	return []any{"custom"}
}

func c18ExplicitFamily() explore.Family {
	type class struct {
		name    string
		members []func() any
		tpls    []string
	}
	containerTpls := []string{"{{ a | size }}|{{ a | compact | size }}|{{ a | join: ',' }}|{{ a | first | size }}|{% if a.first %}T{% else %}F{% endif %}|{% if a.first == nil %}N{% else %}V{% endif %}",
		"{% for x in a %}[{{ x | size }}:{{ x | join: '+' }}]{% endfor %}|{{ a | reverse | first | join }}|{{ a | uniq | size }}|{{ a.last | first }}|{{ a[0] | default: 'dflt' }}", "{{ a }}|{{ a | last }}|{{ a | map: 'k' | size }}|{{ a | concat: a | compact | size }}"}
	listTpls := []string{"{% if a contains 'a' %}C{% else %}N{% endif %}|{% if a contains 'z' %}C{% else %}N{% endif %}|{{ a | join: ',' }}|{{ a | first }}|{{ a.last }}|{{ a[1] }}|{{ a | size }}",
		"{{ a | sort | join }}|{{ a | reverse | join }}|{{ a | uniq | size }}|{% for x in a %}[{{ x }}]{% endfor %}|{% if a[0] == 'a' %}E{% endif %}|{{ a | map: 'nothing' | size }}|{{ a | concat: a | uniq | join }}",
		"{% case 'b' %}{% when a[1] %}W{% endcase %}|{{ a | sort_natural | join }}|{{ a | compact | size }}|{% if a == a %}S{% endif %}|{{ a }}"}
	dropTpls := []string{"{{ d }}|{% if d %}T{% else %}F{% endif %}|{{ d | default: 'dflt' }}|{% if d == nil %}N{% else %}V{% endif %}", "{{ h.d }}|{{ l[0] }}|{{ l | join: ',' }}|{{ l | compact | size }}|{% for x in l %}[{{ x }}]{% endfor %}",
		"{{ d.count }}|{{ d.list | size }}|{{ d | first }}|{{ d | size }}|{% case d %}{% when 'guest' %}G{% else %}E{% endcase %}"}
	classes := []class{
		{"list of an empty and a non-empty list", []func() any{
			func() any { return []any{[]any{}, []any{1, 2}} }, func() any { return [][]int{nil, {1, 2}} }, func() any { return [][]int{{}, {1, 2}} },
			func() any { return []any{[]int(nil), []int{1, 2}} }, func() any { return [2][]int{nil, {1, 2}} }, func() any { return []any{[0]int{}, [2]int{1, 2}} }}, containerTpls},
		{"list of an empty and a non-empty map", []func() any{
			func() any { return []any{map[string]any{}, map[string]any{"k": 1}} }, func() any { return []map[string]any{nil, {"k": 1}} },
			func() any { return []map[string]int{{}, {"k": 1}} }, func() any { return []any{map[string]int(nil), map[string]any{"k": 1}} }}, containerTpls},
		{"a list of two strings held as Drops", []func() any{
			func() any { return []any{"a", "b"} }, func() any { return []string{"a", "b"} }, func() any { return []any{c18Tag{"a"}, c18Tag{"b"}} },
			func() any { return []c18Tag{{"a"}, {"b"}} }, func() any { return [2]c18Tag{{"a"}, {"b"}} }, func() any { return []*c18Tag{{"a"}, {"b"}} },
			func() any { return []univ.Drop{{V: "a"}, {V: "b"}} }}, listTpls},
		{"a Drop yielding 'guest'", []func() any{
			func() any { return "guest" }, func() any { return (*c18NilUser)(nil) }, func() any { return &c18NilUser{"guest"} }, func() any { return univ.Drop{V: "guest"} }}, dropTpls},
		{"a Drop yielding {count:0,list:[]}", []func() any{
			func() any { return map[string]any{"count": 0, "list": []string{}} }, func() any { return c18Tags(nil) }, func() any { return c18Tags{} }}, dropTpls},
		{"a Drop yielding ['default']", []func() any{
			func() any { return []any{"default"} }, func() any { return c18Opts(nil) }, func() any { return univ.Drop{V: []any{"default"}} }}, dropTpls},
	}
	type job struct{ c, m, t int }
	var jobs []job
	for ci, c := range classes {
		for mi := 1; mi < len(c.members); mi++ {
			for ti := range c.tpls {
				jobs = append(jobs, job{ci, mi, ti})
			}
		}
	}
	return explore.Family{Name: "nil-held-and-empty-values", Count: int64(len(jobs)), Run: func(i int64, r *explore.Rec) {
		jb := jobs[i]
		c := classes[jb.c]
		src := c.tpls[jb.t]
		env := func(v any) map[string]any {
			return map[string]any{"a": v, "d": v, "h": map[string]any{"d": v}, "l": []any{v, 1}}
		}
		r.Eval()
		r.Eval()
		r.Transition()
		r.Trace()
		b0 := Render(c18.eng, src, env(c.members[0]()))
		o := Render(c18.eng, src, env(c.members[jb.m]()))
		r.Class("explicit/" + c.name)
		if o.Sig() != b0.Sig() {
			r.Violation("representation:nil-held:"+c.name, map[string]any{"template": src, "value": c.name, "representation": fmt.Sprintf("%T (member %d)", c.members[jb.m](), jb.m)}, b0.String(), o.String())
		}
	}}
}

// c18Where names the first |-separated segment of the template whose output differs (violation key).
func c18Where(o, b Outcome, src string) string {
	if o.Err != nil || o.Panic != nil {
		return "error"
	}
	a, c := strings.Split(o.Out, "|"), strings.Split(b.Out, "|")
	segs := strings.Split(src, "|")
	for i := range a {
		if i >= len(c) || a[i] != c[i] {
			if i < len(segs) && len(a) == len(c) && len(segs) >= len(a) {
				s := strings.TrimSpace(segs[i])
				if len(s) > 40 {
					s = s[:40]
				}
				return s
			}
			return fmt.Sprintf("segment%d", i)
		}
	}
	return "?"
}

func c18EnvDesc() string {
	var names []string
	for k := range c18Env {
		names = append(names, k)
	}
	sort.Strings(names)
	var sb strings.Builder
	for _, k := range names {
		sb.WriteString(k + "=" + ref.Show(c18Env[k]) + " ")
	}
	return sb.String()
}

func init() {
	explore.Register(&explore.Prop{
		ID:    "C18",
		Level: "model_checking",
		Rule: "one logical binding environment (19 bindings: ints, floats, strings, bool, nil, flat/nested/empty lists, maps, list of maps; ~60 value-tree nodes) x 28 templates using each binding only in the positions the statement names (one of them: integers as index, loop limit / offset / cols and range bounds); every node independently chooses a Go representation (numeric width, Drop by value / by pointer, pointer, typed slice, fixed array, typed map, MapSlice, []byte); " +
			"deviation-bounded exploration: all assignments with <=1 (quick) / <=3 (thorough) non-default nodes among the nodes a template uses; oracle = output of the all-generic assignment; " +
			"state = multiset of non-default representations; transition/trace = one assignment rendered",
		Assumptions: []string{
			"[]byte only for top-level strings that are printed or string-filter input; MapSlice only in lookup/size templates; pointers only at top level or as map values reached by property lookup",
			"an int and a float of the same value are different logical values (integer vs real division)",
		},
		Setup:    func(string) { c18.eng = liquid.NewEngine() },
		Families: c18Families,
		Bound: func(tier string) string {
			if tier == "thorough" {
				return "all assignments with <=3 non-default nodes"
			}
			return "all assignments with <=1 non-default node"
		},
	})
}
