package props

import (
	"bytes"
	"errors"
	"fmt"
	"io"
	"strings"

	"github.com/osteele/liquid"
	"github.com/osteele/liquid/render"
	"verifmc/explore"
)

// C20 — a failing output writer stops the render with an error, never a panic.

var errC20 = errors.New("injected writer failure")

// c20Work counts executions of the counting filter and tag (see c20Engine).
var c20Work int

const c20IncName = "c20_included.liquid"

var c20Templates = []string{
	"hello",
	"a{{ x }}b{{ y }}c",
	"{% if x %}yes{{ x }}{% else %}no{% endif %} tail",
	"{% for i in l %}<{{ i }}>{% endfor %}.",
	"{% for i in l %}{% for j in l %}{% cycle 'a', 'b' %}{{ j }}{% endfor %};{% endfor %}",
	"{% tablerow i in l cols: 2 %}{{ i }}{% endtablerow %}",
	"{% tablerow i in l %}x{% endtablerow %}end",
	"{% capture c %}cap{{ x }}{% endcapture %}[{{ c }}]",
	`pre{% include "` + c20IncName + `" %}post`,
	" a {{- x -}} b {%- if x -%} c {%- endif -%} d ",
	"{{ x -}}  {{- y }}",
	"text {%- assign q = 1 -%} more {{ q }}",
	"p{% raw %}{{ raw }}{% endraw %}q",
	"p{% comment %}nothing{% endcomment %}q",
	"{% mytag %}|{% myblock %}inner{{ x }}{% endmyblock %}|",
	"{% case x %}{% when 'X' %}W{{ x }}{% else %}E{% endcase %}",
	"{% unless y %}U{% endunless %}{{ l | join: ',' }}",
	"{% for i in l %}{% if i == 2 %}{% continue %}{% endif %}{{ i }}{% if i == 3 %}{% break %}{% endif %}{% endfor %}!",
	"{% assign only = 1 %}",
	"{{ x }}",
	"{{ nothing }}",
	"{% for i in (1..3) %}{{ i }}{% else %}none{% endfor %}{% for i in nothing %}{{ i }}{% else %}none{% endfor %}",
	strings.Repeat("0123456789", 50) + "{{ x }}" + strings.Repeat("abcdefghij", 50),
	// many writes: every index of a 300-write render is a fault point
	"{% for i in (1..100) %}{{ i }},{% if i == 50 %}{% continue %}{% endif %}x{% endfor %}end",
	"{% for i in (1..12) %}{% for j in (1..12) %}{{ j }}{% endfor %}{% cycle 'a', 'b', 'c' %}{% endfor %}",
	"{% tablerow i in (1..40) cols: 7 %}{{ i }}{% endtablerow %}",
	strings.Repeat("{{ x }}-", 64) + strings.Repeat("y", 70000) + "{{ x }}",
	"{%- if x -%}\n  {{- x -}}\n{%- endif -%}\n",
	"{% for i in l -%} {{ i }} {%- endfor %}",
	"{{ l }}{{ m.k }}{{ bytes }}",
	"é😀{{ u }}é",
	"{% capture c %}{% for i in l %}{{ i }}{% endfor %}{% endcapture %}{{ c | append: x }}{{ c }}",
	"a{% if false %}never{% endif %}b{% if true %}{% endif %}c",
	"{% tablerow i in l cols: 1 %}{% for j in l %}{{ j }}{% endfor %}{% endtablerow %}",
	// iterations that end by break / continue, as the last thing of the template and with output after them
	"{% tablerow i in l cols: 2 %}{{ i }}{% if i == 2 %}{% break %}{% endif %}{% endtablerow %}",
	"{% tablerow i in l cols: 2 %}{{ i }}{% if i == 2 %}{% break %}{% endif %}{% endtablerow %}end",
	"{% tablerow i in l cols: 2 %}{{ i }}{% continue %}never{% endtablerow %}",
	"{% tablerow i in l %}{% if i == 1 %}{% continue %}{% endif %}{{ i }}{% endtablerow %}end",
	"{% for i in l %}{{ i }}{% break %}{% endfor %}",
	"{% for i in l %}{{ i }}{% continue %}never{% endfor %}",
	"{% for i in l %}{% tablerow j in l cols: 2 %}{{ j }}{% break %}{% endtablerow %}{% if i == 2 %}{% break %}{% endif %}{% endfor %}",
	"{% tablerow i in l cols: 2 %}{% for j in l %}{% continue %}{% endfor %}{% continue %}{% endtablerow %}",
	// values printed with several writes at several depths (arrays of arrays, maps of arrays)
	"<pre>{{ table }}</pre>",
	"{% for t in tagmap %}{{ t }}{% endfor %}|{{ table | first }}{{ table | last }}",
	"{{ tagmap.q }}{{ table[1] }}{% for row in table %}{{ row }};{% endfor %}",
	// work that would go on if rendering did not stop: 40 filter / tag executions, each followed by a write
	"{% for i in (1..40) %}{{ i | cnt }},{% endfor %}end",
	"{% for i in (1..40) %}{% cnttag %}{{ i }}{% endfor %}",
	"{% tablerow i in (1..40) cols: 3 %}{{ i | cnt }}{% endtablerow %}",
	"{% for i in (1..8) %}{% for j in (1..5) %}{{ j | cnt }}{% endfor %}{% capture c %}{{ i | cnt }}{% endcapture %}{{ c }}{% endfor %}",
	// an application block that hands on what its body returned - text together with the break / continue that ended it
	"{% for i in l %}a{% myblock %}b{{ i }}{% break %}{% endmyblock %}c{% endfor %}d",
	"{% for i in l %}{% myblock %}x{{ i }}{% continue %}y{% endmyblock %}z{% endfor %}w",
	"{% for i in l %}{% myblock %}{% if i == 2 %}{% break %}{% endif %}{{ i }}{% endmyblock %}{% endfor %}{% mytag %}",
}

// c20Skeletons: every subset of hyphen positions of a few block skeletons (the trim writer holds
// the last write back, so where a writer failure surfaces depends on the markers around it).
var c20Skeletons = [][]string{
	{"p ", "{%", " if x ", "%}", " a ", "{{", " x ", "}}", " b ", "{%", " endif ", "%}", " q"},
	{"", "{%", " for i in l ", "%}", " ", "{{", " i ", "}}", " ", "{%", " endfor ", "%}", "."},
	{"", "{%", " if x ", "%}", "", "{%", " raw ", "%}", " r ", "{%", " endraw ", "%}", "", "{%", " endif ", "%}", "z"},
	{"", "{%", " capture c ", "%}", " a ", "{{", " x ", "}}", " ", "{%", " endcapture ", "%}", "[", "{{", " c ", "}}", "]"},
	{"", "{%", " unless y ", "%}", "", "{{", " x ", "}}", "", "{%", " else ", "%}", "n", "{%", " endunless ", "%}", ""},
	{"", "{%", " tablerow i in l cols: 2 ", "%}", " ", "{{", " i ", "}}", "", "{%", " endtablerow ", "%}", ""},
}

func c20AllTemplates() []string {
	out := append([]string{}, c20Templates...)
	for _, sk := range c20Skeletons {
		// hyphen positions: after every opening and before every closing delimiter
		var pos []int
		for i, p := range sk {
			if p == "{%" || p == "{{" || p == "%}" || p == "}}" {
				pos = append(pos, i)
			}
		}
		for mask := 1; mask < 1<<uint(len(pos)); mask++ {
			var sb strings.Builder
			k := 0
			for i, p := range sk {
				isDelim := k < len(pos) && pos[k] == i
				if isDelim && (p == "%}" || p == "}}") && mask&(1<<uint(k)) != 0 {
					sb.WriteString("-")
				}
				sb.WriteString(p)
				if isDelim && (p == "{%" || p == "{{") && mask&(1<<uint(k)) != 0 {
					sb.WriteString("-")
				}
				if isDelim {
					k++
				}
			}
			out = append(out, sb.String())
		}
	}
	return out
}

var c20All []string

func c20Engine() *liquid.Engine {
	e := liquid.NewEngine()
	e.RegisterTag("mytag", func(c render.Context) (string, error) { return "TAG", nil })
	// work the render does is counted: after the writer has failed, (almost) no further filter or tag may run
	e.RegisterFilter("cnt", func(v any) any { c20Work++; return v })
	e.RegisterTag("cnttag", func(c render.Context) (string, error) { c20Work++; return "t", nil })
	e.RegisterBlock("myblock", func(c render.Context) (string, error) {
		s, err := c.InnerString()
		return "<" + s + ">", err
	})
	if _, err := e.ParseTemplateAndCache([]byte("inc({{ x }}){% for i in l %}{{ i }}{% endfor %}"), c20IncName, 1); err != nil {
		panic("harness: " + err.Error())
	}
	return e
}

func c20Bind() map[string]any {
	return map[string]any{"x": "X", "y": nil, "l": []any{1, 2, 3}, "m": map[string]any{"k": "v"}, "bytes": []byte("by"), "u": "ü",
		// values whose printing takes several writes at several depths
		"table": []any{[]any{"a", "b", "c"}, []any{"d", []any{"e", "f"}}, []string{"g"}}, "tagmap": map[string]any{"p": []any{"t1", "t2"}, "q": [][]int{{1, 2}, {3}}}}
}

type recWriter struct {
	sizes []int
	buf   bytes.Buffer
}

func (w *recWriter) Write(b []byte) (int, error) {
	w.sizes = append(w.sizes, len(b))
	return w.buf.Write(b)
}

type faultWriter struct {
	k        int  // failing call index
	accept   int  // bytes accepted of the failing call
	nilErr   bool // short write without an error (contract violation)
	forever  bool
	errKind  int // which error value the writer returns (c20Errs)
	calls    int
	failedAt int // call index of the first failure, -1 before
	after    int // Write calls after the first failure
	got      bytes.Buffer
	workAt   int    // c20Work when the first failure happened
	before   []byte // everything accepted up to and including the failing call
}

func (w *faultWriter) Write(b []byte) (int, error) {
	i := w.calls
	w.calls++
	if w.failedAt >= 0 {
		w.after++
	}
	if i == w.k || (w.forever && w.failedAt >= 0) {
		n := w.accept
		if n > len(b) {
			n = len(b)
		}
		if w.failedAt >= 0 {
			n = 0
		}
		w.got.Write(b[:n])
		if w.failedAt < 0 {
			w.failedAt = i
			w.workAt = c20Work
			w.before = append([]byte{}, w.got.Bytes()...)
		}
		if w.nilErr {
			return n, nil
		}
		return n, c20Errs[w.errKind]
	}
	w.got.Write(b)
	return len(b), nil
}

// the error values a failing writer may return: the library must carry ANY of them back - in particular the
// standard ones that mean "I accepted only part of it" or "closed", which it has no business interpreting
var c20Errs = []error{errC20, io.ErrShortWrite, io.EOF, io.ErrClosedPipe, fmt.Errorf("disk full: %w", errC20)}

type c20Case struct {
	errKind int
	t       int
	k       int
	accept  int
	nilErr  bool
	forever bool
	entry   int // 0 FRender, 1 ParseAndFRender
}

var c20 struct {
	eng   *liquid.Engine
	cases map[string][]c20Case
	clean []string
}

func c20Build(tier string) []c20Case {
	if c20.cases == nil {
		c20.cases = map[string][]c20Case{}
	}
	if cs, ok := c20.cases[tier]; ok {
		return cs
	}
	eng := c20Engine()
	var out []c20Case
	if c20All == nil {
		c20All = c20AllTemplates()
	}
	c20.clean = make([]string, len(c20All))
	for t, src := range c20All {
		rw := &recWriter{}
		if err := eng.ParseAndFRender(rw, []byte(src), c20Bind()); err != nil {
			panic(explore.BaselineFailure{Msg: "harness: fault-free render fails: " + src + ": " + err.Error()})
		}
		c20.clean[t] = rw.buf.String()
		for k, L := range rw.sizes {
			var accepts []int
			accepts = append(accepts, 0)
			if t >= len(c20Templates) {
				// generated skeletons: the plain failure is enough at every index
				out = append(out, c20Case{0, t, k, 0, false, true, 0}, c20Case{0, t, k, 0, false, false, 1})
				if L > 1 {
					out = append(out, c20Case{0, t, k, L / 2, false, true, 0})
				}
				// the writer took every byte of the call and reports an error with it (data accepted, flush failed)
				out = append(out, c20Case{0, t, k, L, false, false, 0})
				continue
			}
			if L <= 8 || tier == "thorough" && L <= 64 {
				for p := 1; p < L; p++ {
					accepts = append(accepts, p)
				}
			} else {
				accepts = append(accepts, 1, L/2, L-1)
			}
			accepts = append(accepts, L) // every byte accepted AND an error returned
			for _, a := range accepts {
				for _, forever := range []bool{false, true} {
					for entry := 0; entry < 2; entry++ {
						out = append(out, c20Case{0, t, k, a, false, forever, entry})
					}
				}
			}
			// contract-violating short writes (totality only)
			for _, a := range []int{0, L / 2} {
				if a < L {
					out = append(out, c20Case{0, t, k, a, true, false, 0})
				}
			}
			// the other error values, failing once and forever, accepting nothing, one byte or half
			for ek := 1; ek < len(c20Errs); ek++ {
				for _, a := range []int{0, 1, L / 2, L} {
					if a <= L || a == 0 {
						out = append(out, c20Case{ek, t, k, a, false, false, 0}, c20Case{ek, t, k, a, false, true, 1})
					}
				}
			}
		}
	}
	c20.cases[tier] = out
	return out
}

func c20Families(tier string) []explore.Family {
	cases := c20Build(tier)
	return []explore.Family{{Name: "fault-points", Count: int64(len(cases)), Run: func(i int64, r *explore.Rec) {
		c := cases[i]
		src := c20All[c.t]
		fw := &faultWriter{k: c.k, accept: c.accept, nilErr: c.nilErr, forever: c.forever, errKind: c.errKind, failedAt: -1}
		desc := func() any {
			return map[string]any{"template": trunc80(src), "failing_write_call": c.k, "bytes_accepted_of_that_call": c.accept, "short_write_without_error": c.nilErr,
				"fail_forever": c.forever, "writer_error": c20Errs[c.errKind].Error(), "entry": []string{"FRender", "ParseAndFRender"}[c.entry]}
		}
		r.Eval()
		var err liquid.SourceError
		p := explore.Safe(func() {
			if c.entry == 1 {
				err = c20.eng.ParseAndFRender(fw, []byte(src), c20Bind())
				return
			}
			tpl, perr := c20.eng.ParseString(src)
			if perr != nil {
				panic(explore.BaselineFailure{Msg: "harness: " + perr.Error()})
			}
			err = tpl.FRender(fw, c20Bind())
		})
		kind := "error-return"
		if c.nilErr {
			kind = "short-write"
		}
		if c.t < len(c20Templates) {
			r.Class(fmt.Sprintf("t%d/%s/accept%v", c.t, kind, c.accept > 0))
		} else {
			r.Class(fmt.Sprintf("skeleton/%s/accept%v", kind, c.accept > 0))
		}
		if p != nil {
			r.Violation(p.Key(), desc(), "a SourceError carrying the writer's failure", "panic: "+p.Value)
			return
		}
		if c.nilErr {
			return // a writer that breaks the io.Writer contract: only totality is required
		}
		if fw.failedAt < 0 {
			panic(fmt.Sprintf("harness: write %d of template %d never happened", c.k, c.t))
		}
		if err == nil {
			r.Violation("success-reported", desc(), "a non-nil SourceError", "nil (success)")
			return
		}
		if !reaches(err.Cause(), func(e error) bool { return e == c20Errs[c.errKind] }) {
			r.Violation("cause-lost", desc(), "Cause() chain reaches the writer's error", fmt.Sprintf("%v (cause %#v)", safeErr(err), err.Cause()))
		}
		if !strings.HasPrefix(c20.clean[c.t], string(fw.before)) {
			r.Violation("not-a-prefix", desc(), "accepted bytes are a prefix of "+trunc80(fmt.Sprintf("%q", c20.clean[c.t])), trunc80(fmt.Sprintf("%q", fw.before)))
		}
		// "rendering stops": no further nodes are rendered. Held-back text may still be flushed once per
		// enclosing block on the way out (nesting depth <= 3 here), so up to 4 further Write attempts are
		// not "continuing to render"; a render that keeps going makes W-k-1 of them.
		// ... and it does no further work: the node in flight may finish (and a capture inside it), nothing more
		if more := c20Work - fw.workAt; more > 6 {
			r.Violation("keeps-rendering", desc(), "rendering stops after the writer failed", fmt.Sprintf("%d more filter/tag executions after the failing write", more))
		}
		if c.forever && fw.after > 4 {
			r.Violation("keeps-writing", desc(), "rendering stops after the writer failed", fmt.Sprintf("%d more Write calls", fw.after))
		}
		if !c.forever && !strings.HasPrefix(fw.got.String(), string(fw.before)) {
			r.Violation("not-a-prefix", desc(), "prefix kept", "overwritten")
		}
		if r.WantSample() {
			r.Sample(map[string]any{"case": desc(), "error": safeErr(err), "accepted": trunc80(fw.got.String())})
		}
	}}}
}

func init() {
	explore.Register(&explore.Prop{
		ID:    "C20",
		Level: "fault_enumeration",
		Rule: "every subset of hyphen positions of 6 block skeletons (if, for, raw inside if, capture, unless/else, tablerow: ~1000 templates) and 52 templates (three printing arrays of arrays; four that count the filter/tag executions after the failing write; eight with loops whose iterations end by break or continue; four of them with 100..600 writes or a 70 KB write) covering every tag (incl. tablerow, include, capture, nested loops, cycle, registered tag and block), trim-marker placements, empty output and long text; a fault-free render records the W Write calls and their sizes; then for EVERY k in 0..W-1 the writer fails on call k accepting 0 bytes, a strict prefix or all bytes of the call (all prefix lengths for calls <=8 bytes (quick) / <=64 (thorough), else 1, len/2, len-1), failing once or forever, through FRender and ParseAndFRender, returning a sentinel error - and, for the hand-written templates, io.ErrShortWrite, io.EOF, io.ErrClosedPipe and a wrapping error as well; plus short writes with a nil error (totality only); " +
			"class = (template, fault kind, partial accept); distinct_nontrivial counts distinct classes",
		Assumptions: []string{"a writer that returns n < len(p) with a nil error violates io.Writer; only absence of a panic is required there"},
		Setup:       func(tier string) { c20.eng = c20Engine(); c20Build(tier) },
		Families:    c20Families,
		Bound: func(string) string {
			return "every write index of every template; one fault per run (rendering must stop at the first)"
		},
	})
}
