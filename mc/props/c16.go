package props

import (
	"fmt"
	"html"
	"strconv"
	"strings"
	"unicode"
	"unicode/utf8"

	"github.com/osteele/liquid"
	"verifmc/explore"
)

// C16 — string filters implement their documented functions on every string.

var sigmaStr = []string{"a", "B", " ", "\n", "é", "😀", "<", "&", `"`, "'", "%", "+"}

var c16 struct {
	eng  *liquid.Engine
	tpl  map[string]*liquid.Template
	strs map[int][]string // all strings of length <= n
}

func c16Strings(n int) []string {
	if c16.strs == nil {
		c16.strs = map[int][]string{}
	}
	if s, ok := c16.strs[n]; ok {
		return s
	}
	cnt := seqCount(len(sigmaStr), n)
	out := make([]string, 0, cnt)
	for i := int64(0); i < cnt; i++ {
		out = append(out, joinSyms(sigmaStr, seqAt(len(sigmaStr), i), ""))
	}
	c16.strs[n] = out
	return out
}

// c16Render renders a cached parsed template.
func c16Render(src string, b map[string]any) (o Outcome) {
	t, ok := c16.tpl[src]
	if !ok {
		var err liquid.SourceError
		t, err = c16.eng.ParseString(src)
		if err != nil {
			panic(explore.BaselineFailure{Msg: "harness: " + err.Error()})
		}
		c16.tpl[src] = t
	}
	o.Panic = explore.Safe(func() {
		out, err := t.Render(b)
		o.Out, o.Err = string(out), err
	})
	return
}

func runes(s string) []rune { return []rune(s) }

func mapRunes(s string, f func(rune) rune) string {
	var sb strings.Builder
	for _, r := range s {
		sb.WriteRune(f(r))
	}
	return sb.String()
}

func refReplace(s, old, new string, all bool) string {
	if old == "" {
		return s
	}
	var sb strings.Builder
	for {
		i := strings.Index(s, old)
		if i < 0 {
			break
		}
		sb.WriteString(s[:i])
		sb.WriteString(new)
		s = s[i+len(old):]
		if !all {
			break
		}
	}
	sb.WriteString(s)
	return sb.String()
}

func words(s string) []string { return strings.FieldsFunc(s, unicode.IsSpace) }

type c16Case struct {
	r    *explore.Rec
	key  string
	desc func() any
}

func (c c16Case) ok(o Outcome) bool {
	if o.Panic != nil || o.Err != nil {
		c.r.Violation("fails:"+c.key, c.desc(), "output (string filters accept every string)", o.String())
		return false
	}
	return true
}
func (c c16Case) want(o Outcome, exp string) {
	if !c.ok(o) {
		return
	}
	if o.Out != exp {
		c.r.Violation("wrong:"+c.key, c.desc(), strconv.Quote(exp), strconv.Quote(o.Out))
	}
}
func (c c16Case) utf8(in string, o Outcome) {
	if o.Panic == nil && o.Err == nil && utf8.ValidString(in) && !utf8.ValidString(o.Out) {
		c.r.Violation("invalid-utf8:"+c.key, c.desc(), "valid UTF-8", strconv.Quote(o.Out))
	}
}

var c16Unary = []string{"upcase", "downcase", "capitalize", "strip", "lstrip", "rstrip", "size", "escape", "escape_once", "url_encode",
	"strip_newlines", "newline_to_br", "strip_html", "url_roundtrip", "escape_once_twice", "split_chars"}

func c16Families(tier string) []explore.Family {
	n := 3
	if tier == "thorough" {
		n = 4
	}
	S := c16Strings(n)
	S3 := c16Strings(3)
	S2 := c16Strings(2)
	S1 := c16Strings(1)
	NS := len(S)
	var fams []explore.Family

	fams = append(fams, explore.Family{Name: "unary", Count: int64(NS * len(c16Unary)), Run: func(i int64, r *explore.Rec) {
		si, fi := int(i)%NS, int(i)/NS
		s, f := S[si], c16Unary[fi]
		c := c16Case{r, f, func() any { return map[string]any{"s": s, "filter": f} }}
		r.Eval()
		r.Transition()
		r.Trace()
		b := map[string]any{"s": s}
		var o Outcome
		switch f {
		case "upcase":
			o = c16Render("{{ s | upcase }}", b)
			c.want(o, mapRunes(s, unicode.ToUpper))
		case "downcase":
			o = c16Render("{{ s | downcase }}", b)
			c.want(o, mapRunes(s, unicode.ToLower))
		case "capitalize":
			o = c16Render("{{ s | capitalize }}", b)
			exp := s
			if rs := runes(s); len(rs) > 0 {
				exp = string(unicode.ToUpper(rs[0])) + string(rs[1:])
			}
			c.want(o, exp)
		case "strip":
			o = c16Render("{{ s | strip }}", b)
			c.want(o, strings.TrimFunc(s, unicode.IsSpace))
		case "lstrip":
			o = c16Render("{{ s | lstrip }}", b)
			c.want(o, strings.TrimLeftFunc(s, unicode.IsSpace))
		case "rstrip":
			o = c16Render("{{ s | rstrip }}", b)
			c.want(o, strings.TrimRightFunc(s, unicode.IsSpace))
		case "size":
			o = c16Render("{{ s | size }}", b)
			c.want(o, strconv.Itoa(len(runes(s))))
		case "escape":
			o = c16Render("{{ s | escape }}", b)
			if c.ok(o) {
				if strings.ContainsAny(o.Out, `<>'"`) || html.UnescapeString(o.Out) != s || strings.Contains(html.UnescapeString(strings.ReplaceAll(o.Out, "&", "\x00")), "\x00") && false {
					r.Violation("wrong:escape", c.desc(), "no raw < > ' \" and unescaping gives the input back", strconv.Quote(o.Out))
				}
				// every & must start an entity
				rest := o.Out
				for {
					j := strings.Index(rest, "&")
					if j < 0 {
						break
					}
					rest = rest[j:]
					k := strings.Index(rest, ";")
					if k < 0 || k > 8 {
						r.Violation("wrong:escape-amp", c.desc(), "no raw &", strconv.Quote(o.Out))
						break
					}
					rest = rest[k:]
				}
			}
		case "escape_once":
			o = c16Render("{{ s | escape_once }}", b)
			if c.ok(o) && strings.ContainsAny(o.Out, `<>'"`) {
				r.Violation("wrong:escape_once", c.desc(), "no raw < > ' \"", strconv.Quote(o.Out))
			}
		case "escape_once_twice":
			o = c16Render("{{ s | escape_once }}", b)
			o2 := c16Render("{{ s | escape_once | escape_once }}", b)
			if c.ok(o) && c.ok(o2) && o.Out != o2.Out {
				r.Violation("law:escape_once-idempotent", c.desc(), strconv.Quote(o.Out), strconv.Quote(o2.Out))
			}
		case "url_encode":
			o = c16Render("{{ s | url_encode }}", b)
			c.ok(o)
		case "url_roundtrip":
			o = c16Render("{{ s | url_encode | url_decode }}", b)
			c.want(o, s)
		case "strip_newlines":
			o = c16Render("{{ s | strip_newlines }}", b)
			c.want(o, strings.ReplaceAll(s, "\n", ""))
		case "newline_to_br":
			o = c16Render("{{ s | newline_to_br }}", b)
			c.ok(o)
		case "strip_html":
			o = c16Render("{{ s | strip_html }}", b)
			c.ok(o)
		case "split_chars":
			// split and join are inverse on separator-free pieces
			for _, sep := range []string{",", "a", "é", "+%", "aa", ",,", "a,a", "éé", "%%"} { // the last ones can overlap themselves: pieces are cut at the leftmost occurrences
				pieces := strings.Split(s, sep)
				if s == "" {
					pieces = nil // the empty list of pieces joins to "", so "" splits into no pieces
				}
				// (empty pieces at the end are dropped, as in Ruby; the law is claimed when the last piece is non-empty)
				if len(pieces) > 0 && pieces[len(pieces)-1] == "" {
					continue
				}
				r.Eval()
				o = c16Render("{{ s | split: sep | join: sep }}#{{ s | split: sep | size }}", map[string]any{"s": s, "sep": sep})
				c2 := c16Case{r, "split-join", func() any { return map[string]any{"s": s, "sep": sep} }}
				c2.want(o, s+"#"+strconv.Itoa(len(pieces)))
			}
			return
		}
		c.utf8(s, o)
		r.Class(f + "/" + o.Class())
		r.State(f)
		if r.WantSample() {
			r.Sample(map[string]any{"s": s, "filter": f, "observed": o.String()})
		}
	}})

	// concatenation
	T := S1
	if tier == "thorough" {
		T = S2
	}
	// every character of Unicode that has a case mapping or an encoding byte that looks like Latin-1 whitespace (about 2800 + 2000; for many the mapped character has another
	// UTF-8 width, e.g. dotless i U+0131 -> I, long s U+017F -> S, U+2C65 -> U+023A), alone, first and last in a
	// short string, through the filters that work character by character
	var cased []rune
	for r := rune(0x80); r <= 0x1FFFF; r++ {
		if !utf8.ValidRune(r) || (r >= 0xD800 && r <= 0xDFFF) {
			continue
		}
		enc := string(r)
		// ... and every character whose UTF-8 encoding contains a byte that is whitespace when read as Latin-1
		// (0x85 NEL, 0xA0 NBSP), without being whitespace itself: byte-wise scanning would split words there
		latin1ws := !unicode.IsSpace(r) && (strings.ContainsRune(enc[1:], 0) || strings.IndexByte(enc, 0x85) >= 0 || strings.IndexByte(enc, 0xA0) >= 0)
		if latin1ws && r > 0x2FFF && r%16 != 0 {
			latin1ws = false // beyond U+2FFF one in sixteen of them (about 2000 in all)
		}
		if unicode.ToUpper(r) != r || unicode.ToLower(r) != r || unicode.ToTitle(r) != r || latin1ws {
			cased = append(cased, r)
		}
	}
	caseOps := []string{"upcase", "downcase", "capitalize", "size", "slice01", "truncate1", "capitalize-size", "truncatewords", "strip", "split-blank"}
	fams = append(fams, explore.Family{Name: "every-cased-character", Count: int64(len(cased) * 3 * len(caseOps)), Run: func(i int64, r *explore.Rec) {
		rx := radix{i}
		op, pos, ch := caseOps[rx.next(len(caseOps))], rx.next(3), cased[rx.next(len(cased))]
		s := []string{string(ch), string(ch) + "ab", "a" + string(ch)}[pos]
		c := c16Case{r, "cased:" + op, func() any { return map[string]any{"s": s, "code_point": fmt.Sprintf("U+%04X", ch), "filter": op} }}
		r.Eval()
		r.Transition()
		b := map[string]any{"s": s}
		rs := runes(s)
		var o Outcome
		switch op {
		case "upcase":
			o = c16Render("{{ s | upcase }}", b)
			c.want(o, mapRunes(s, unicode.ToUpper))
		case "downcase":
			o = c16Render("{{ s | downcase }}", b)
			c.want(o, mapRunes(s, unicode.ToLower))
		case "capitalize":
			o = c16Render("{{ s | capitalize }}", b)
			c.want(o, string(unicode.ToUpper(rs[0]))+string(rs[1:]))
		case "size":
			o = c16Render("{{ s | size }}", b)
			c.want(o, strconv.Itoa(len(rs)))
		case "slice01":
			o = c16Render("{{ s | slice: 0, 1 }}|{{ s | slice: -1, 1 }}", b)
			c.want(o, string(rs[0])+"|"+string(rs[len(rs)-1]))
		case "truncate1":
			o = c16Render("{{ s | truncate: 1, '' }}", b)
			c.want(o, string(rs[0]))
		case "truncatewords":
			w := "a" + string(ch) + "b c" + string(ch) + " d"
			o = c16Render("{{ w | truncatewords: 1, '~' }}|{{ w | truncatewords: 2, '~' }}|{{ w | truncatewords: 3 }}", map[string]any{"w": w})
			c.want(o, "a"+string(ch)+"b~|a"+string(ch)+"b c"+string(ch)+"~|"+w)
		case "strip":
			w := " \t" + s + "\n "
			o = c16Render("[{{ w | strip }}][{{ w | lstrip }}][{{ w | rstrip }}]", map[string]any{"w": w})
			c.want(o, "["+s+"]["+s+"\n ][ \t"+s+"]")
		case "split-blank":
			w := s + " x " + s
			o = c16Render("{{ w | split: ' ' | size }}|{{ w | split: ' ' | join: '+' }}", map[string]any{"w": w})
			c.want(o, "3|"+s+"+x+"+s)
		default:
			o = c16Render("{{ s | capitalize | size }}|{{ s | upcase | downcase | size }}", b)
			c.want(o, strconv.Itoa(len(rs))+"|"+strconv.Itoa(len(runes(mapRunes(mapRunes(s, unicode.ToUpper), unicode.ToLower)))))
		}
		c.utf8(s, o)
		r.Class("cased/" + op)
	}})

	// code points an implementation might use as an internal stand-in or sentinel (noncharacters U+FDD0..U+FDEF, U+FFFE,
	// U+FFFF, their supplementary cousins, private-use, controls, U+FFFD, the BOM), next to the HTML/URL specials: the
	// escaping filters keep their laws and leave the code point alone
	var odd []rune
	for r := rune(0xFDD0); r <= 0xFDEF; r++ {
		odd = append(odd, r)
	}
	odd = append(odd, 0xFFFE, 0xFFFF, 0x1FFFE, 0x1FFFF, 0x10FFFF, 0xE000, 0xF8FF, 0xFFFD, 0xFEFF, 0x0000, 0x0001, 0x001A, 0x001B, 0x007F, 0x0080, 0x009F, 0x2028, 0x200B, 0x00AD, 0xFFF9, 0xFFFC)
	oddCtx := []string{"R&D %c x", "&amp; %c", "%c&lt;<>\"'", "a%cb", "%c", "&%c;", "&#%c;", "%c&", "x %c%c y & z"}
	fams = append(fams, explore.Family{Name: "escaping-next-to-odd-code-points", Count: int64(len(odd) * len(oddCtx)), Run: func(i int64, r *explore.Rec) {
		cp, ctx := odd[int(i)%len(odd)], oddCtx[int(i)/len(odd)]
		s := strings.ReplaceAll(ctx, "%c", string(cp))
		c := c16Case{r, "odd-code-point", func() any {
			return map[string]any{"s": strconv.QuoteToASCII(s), "code_point": fmt.Sprintf("U+%04X", cp)}
		}}
		r.Eval()
		r.Transition()
		const sep = "\x1e"
		o := c16Render("{{ s | escape_once }}"+sep+"{{ s | escape_once | escape_once }}"+sep+"{{ s | escape }}"+sep+"{{ s | url_encode | url_decode }}"+sep+"{{ s | size }}"+sep+"{{ s | append: 'Q' | remove: 'Q' }}"+sep+"{{ s | upcase | downcase | size }}", map[string]any{"s": s})
		if !c.ok(o) {
			return
		}
		p := strings.Split(o.Out, sep)
		switch {
		case len(p) != 7:
			r.Violation("wrong:odd-code-point", c.desc(), "seven results", strconv.QuoteToASCII(o.Out))
		case p[0] != p[1]:
			r.Violation("wrong:escape_once-not-idempotent", c.desc(), strconv.QuoteToASCII(p[0]), strconv.QuoteToASCII(p[1]))
		case strings.ContainsAny(p[2], "<>'\"") || html.UnescapeString(p[2]) != s:
			r.Violation("wrong:escape", c.desc(), "no raw specials and unescaping gives the input back", strconv.QuoteToASCII(p[2]))
		case html.UnescapeString(p[0]) != html.UnescapeString(s) || strings.Count(p[0], string(cp)) != strings.Count(s, string(cp)):
			r.Violation("wrong:escape_once", c.desc(), "the same text with the same odd code points", strconv.QuoteToASCII(p[0]))
		case p[3] != s:
			r.Violation("wrong:url-roundtrip", c.desc(), strconv.QuoteToASCII(s), strconv.QuoteToASCII(p[3]))
		case p[4] != strconv.Itoa(len(runes(s))) || p[5] != s:
			r.Violation("wrong:odd-code-point:size-or-remove", c.desc(), strconv.Itoa(len(runes(s)))+" / unchanged", strconv.QuoteToASCII(p[4]+" / "+p[5]))
		}
		c.utf8(s, o)
		r.Class("odd-code-point")
	}})

	fams = append(fams, explore.Family{Name: "concat", Count: int64(NS * len(T)), Run: func(i int64, r *explore.Rec) {
		s, t := S[int(i)%NS], T[int(i)/NS]
		r.Eval()
		r.Transition()
		o := c16Render("{{ s | append: t }}|{{ s | prepend: t }}", map[string]any{"s": s, "t": t})
		c := c16Case{r, "append/prepend", func() any { return map[string]any{"s": s, "t": t} }}
		c.want(o, s+t+"|"+t+s)
		r.Class("concat/" + o.Class())
	}})

	// replace family: every non-empty old of length <=2, three replacement strings
	var olds []string
	for _, o := range S2 {
		if o != "" {
			olds = append(olds, o)
		}
	}
	news := []string{"", "X", "é"}
	fams = append(fams, explore.Family{Name: "replace", Count: int64(len(S3) * len(olds) * len(news)), Run: func(i int64, r *explore.Rec) {
		rx := radix{i}
		ni, oi, si := rx.next(len(news)), rx.next(len(olds)), rx.next(len(S3))
		s, old, nw := S3[si], olds[oi], news[ni]
		r.Eval()
		r.Transition()
		o := c16Render("{{ s | replace: o, n }}\x01{{ s | replace_first: o, n }}\x01{{ s | remove: o }}\x01{{ s | remove_first: o }}",
			map[string]any{"s": s, "o": old, "n": nw})
		c := c16Case{r, "replace-family", func() any { return map[string]any{"s": s, "old": old, "new": nw} }}
		c.want(o, refReplace(s, old, nw, true)+"\x01"+refReplace(s, old, nw, false)+"\x01"+refReplace(s, old, "", true)+"\x01"+refReplace(s, old, "", false))
		c.utf8(s+old+nw, o)
		r.Class("replace/" + fmt.Sprint(strings.Contains(s, old)))
	}})

	// slice: start in -3..12, length absent or in -3..12
	const lo, hi = -3, 12
	W := hi - lo + 1
	fams = append(fams, explore.Family{Name: "slice", Count: int64(NS * W * (W + 1)), Run: func(i int64, r *explore.Rec) {
		rx := radix{i}
		li, st, si := rx.next(W+1), rx.next(W)+lo, rx.next(NS)
		s := S[si]
		rs := runes(s)
		var o Outcome
		n := 1
		r.Eval()
		r.Transition()
		if li == W {
			o = c16Render("{{ s | slice: i }}", map[string]any{"s": s, "i": st})
		} else {
			n = li + lo
			o = c16Render("{{ s | slice: i, n }}", map[string]any{"s": s, "i": st, "n": n})
		}
		c := c16Case{r, "slice", func() any { return map[string]any{"s": s, "start": st, "length": n, "length_given": li != W} }}
		if !c.ok(o) {
			return
		}
		start := st
		if start < 0 {
			start += len(rs)
		}
		if start >= 0 && start <= len(rs) && n >= 0 {
			end := start + n
			if end > len(rs) {
				end = len(rs)
			}
			c.want(o, string(rs[start:end]))
			r.Class("slice/in-range")
		} else {
			// out of range: shorter/empty, never an error; must still be a piece of s no longer than n
			if !strings.Contains(s, o.Out) || len(runes(o.Out)) > maxInt(n, 0) {
				r.Violation("wrong:slice-out-of-range", c.desc(), "a substring of at most max(n,0) characters", strconv.Quote(o.Out))
			}
			r.Class("slice/out-of-range")
		}
		c.utf8(s, o)
	}})

	// truncate / truncatewords: n in -3..12, four ellipses
	ells := []string{"\x00default", "", "é", "--"}
	fams = append(fams, explore.Family{Name: "truncate", Count: int64(NS * W * len(ells)), Run: func(i int64, r *explore.Rec) {
		rx := radix{i}
		ei, n, si := rx.next(len(ells)), rx.next(W)+lo, rx.next(NS)
		s := S[si]
		el := ells[ei]
		var o, ow Outcome
		r.Eval()
		r.Eval()
		r.Transition()
		if ei == 0 {
			el = "..."
			o = c16Render("{{ s | truncate: n }}", map[string]any{"s": s, "n": n})
			ow = c16Render("{{ s | truncatewords: n }}", map[string]any{"s": s, "n": n})
		} else {
			o = c16Render("{{ s | truncate: n, e }}", map[string]any{"s": s, "n": n, "e": el})
			ow = c16Render("{{ s | truncatewords: n, e }}", map[string]any{"s": s, "n": n, "e": el})
		}
		desc := func() any { return map[string]any{"s": s, "n": n, "ellipsis": el} }
		c := c16Case{r, "truncate", desc}
		rs, els := runes(s), runes(el)
		if c.ok(o) {
			switch {
			case len(rs) <= n:
				c.want(o, s) // never lengthen a string that already fits
				r.Class("truncate/fits")
			case n >= len(els):
				c.want(o, string(rs[:n-len(els)])+el)
				r.Class("truncate/cut")
			default:
				r.Class("truncate/unspecified")
			}
			c.utf8(s+el, o)
		}
		cw := c16Case{r, "truncatewords", desc}
		if cw.ok(ow) {
			ws := words(s)
			switch {
			case n >= 1 && len(ws) <= n:
				cw.want(ow, s)
				r.Class("truncatewords/fits")
			case n >= 1:
				if !strings.HasSuffix(ow.Out, el) {
					r.Violation("wrong:truncatewords", desc(), "first n words + ellipsis", strconv.Quote(ow.Out))
				} else {
					got := words(strings.TrimSuffix(ow.Out, el))
					if el != "" && len(words(el)) > 0 && !unicode.IsSpace(runes(el)[0]) {
						// the ellipsis is glued to the last word: compare after removing it from that word
						kept := strings.TrimSuffix(ow.Out, el)
						got = words(kept)
					}
					if strings.Join(got, " ") != strings.Join(ws[:n], " ") {
						r.Violation("wrong:truncatewords", desc(), "first n words + ellipsis: "+strconv.Quote(strings.Join(ws[:n], " ")+el), strconv.Quote(ow.Out))
					}
				}
				r.Class("truncatewords/cut")
			default:
				r.Class("truncatewords/unspecified")
			}
			cw.utf8(s+el, ow)
		}
	}})

	// scaled family: long strings (lengths around 16..65536) built by repeating every string of <=2 symbols;
	// every unary law, slice/truncate at the boundaries of the length
	units := c16Strings(2)[1:]
	reps := []int{8, 16, 17, 31, 32, 33, 50, 63, 64, 65, 70, 100, 127, 128, 129, 255, 256, 257, 1000, 4096, 65536}
	scaledOps := []string{"upcase", "downcase", "capitalize", "strip", "lstrip", "rstrip", "size", "escape-roundtrip", "url-roundtrip", "append", "slice", "truncate", "truncatewords", "replace", "split-join", "print"}
	fams = append(fams, explore.Family{Name: "scaled", Count: int64(len(units) * len(reps) * len(scaledOps)), Run: func(i int64, r *explore.Rec) {
		rx := radix{i}
		op, rep, unit := scaledOps[rx.next(len(scaledOps))], reps[rx.next(len(reps))], units[rx.next(len(units))]
		if rep > 4096 && (op == "replace" || op == "split-join" || op == "slice" || op == "truncatewords") && len(unit) > 4 {
			return
		}
		s := strings.Repeat(unit, rep)
		rs := runes(s)
		n := len(rs)
		r.Eval()
		r.Transition()
		c := c16Case{r, "scaled:" + op, func() any { return map[string]any{"unit": unit, "repeat": rep, "filter": op} }}
		b := map[string]any{"s": s}
		switch op {
		case "upcase":
			c.want(c16Render("{{ s | upcase }}", b), mapRunes(s, unicode.ToUpper))
		case "downcase":
			c.want(c16Render("{{ s | downcase }}", b), mapRunes(s, unicode.ToLower))
		case "capitalize":
			c.want(c16Render("{{ s | capitalize }}", b), string(unicode.ToUpper(rs[0]))+string(rs[1:]))
		case "strip":
			c.want(c16Render("{{ s | strip }}", b), strings.TrimFunc(s, unicode.IsSpace))
		case "lstrip":
			c.want(c16Render("{{ s | lstrip }}", b), strings.TrimLeftFunc(s, unicode.IsSpace))
		case "rstrip":
			c.want(c16Render("{{ s | rstrip }}", b), strings.TrimRightFunc(s, unicode.IsSpace))
		case "size":
			c.want(c16Render("{{ s | size }}", b), strconv.Itoa(n))
		case "escape-roundtrip":
			o := c16Render("{{ s | escape }}", b)
			if c.ok(o) && (strings.ContainsAny(o.Out, `<>'"`) || html.UnescapeString(o.Out) != s) {
				r.Violation("wrong:scaled:escape", c.desc(), "escaped text that unescapes to the input", trunc80(o.Out))
			}
		case "url-roundtrip":
			c.want(c16Render("{{ s | url_encode | url_decode }}", b), s)
		case "append":
			c.want(c16Render("{{ s | append: s | size }}|{{ s | prepend: 'x' | slice: 0 }}", b), strconv.Itoa(2*n)+"|x")
		case "print":
			c.want(c16Render("{{ s }}", b), s)
		case "slice":
			for _, st := range []int{0, 1, n / 2, n - 2, n - 1, n, n + 1, -1, -n, -n - 1} {
				for _, ln := range []int{0, 1, 2, n / 2, n - 1, n, n + 1} {
					start := st
					if start < 0 {
						start += n
					}
					if start < 0 || start > n {
						continue
					}
					end := start + ln
					if end > n {
						end = n
					}
					r.Eval()
					o := c16Render("{{ s | slice: i, n }}", map[string]any{"s": s, "i": st, "n": ln})
					cc := c16Case{r, "scaled:slice", func() any { return map[string]any{"unit": unit, "repeat": rep, "start": st, "length": ln} }}
					cc.want(o, string(rs[start:end]))
				}
			}
		case "truncate":
			for _, k := range []int{3, n / 2, n - 1, n, n + 1, 50} {
				r.Eval()
				o := c16Render("{{ s | truncate: n }}", map[string]any{"s": s, "n": k})
				cc := c16Case{r, "scaled:truncate", func() any { return map[string]any{"unit": unit, "repeat": rep, "n": k} }}
				switch {
				case n <= k:
					cc.want(o, s)
				case k >= 3:
					cc.want(o, string(rs[:k-3])+"...")
				}
			}
			// the default length
			o := c16Render("{{ s | truncate }}", b)
			cc := c16Case{r, "scaled:truncate-default", c.desc}
			if n <= 50 {
				cc.want(o, s)
			} else {
				cc.want(o, string(rs[:47])+"...")
			}
		case "truncatewords":
			ws := words(s)
			for _, k := range []int{1, len(ws) - 1, len(ws), len(ws) + 1, 15} {
				if k < 1 {
					continue
				}
				r.Eval()
				o := c16Render("{{ s | truncatewords: n }}", map[string]any{"s": s, "n": k})
				cc := c16Case{r, "scaled:truncatewords", func() any { return map[string]any{"unit": unit, "repeat": rep, "n": k} }}
				if !cc.ok(o) {
					continue
				}
				if len(ws) <= k {
					cc.want(o, s)
				} else if !strings.HasSuffix(o.Out, "...") || strings.Join(words(strings.TrimSuffix(o.Out, "...")), " ") != strings.Join(ws[:k], " ") {
					r.Violation("wrong:scaled:truncatewords", cc.desc(), "first n words + ellipsis", trunc80(o.Out))
				}
			}
		case "replace":
			old := string(rs[:1])
			c.want(c16Render("{{ s | replace: o, 'X' }}|{{ s | replace_first: o, 'X' }}|{{ s | remove: o | size }}", map[string]any{"s": s, "o": old}),
				refReplace(s, old, "X", true)+"|"+refReplace(s, old, "X", false)+"|"+strconv.Itoa(len(runes(refReplace(s, old, "", true)))))
		case "split-join":
			sep := string(rs[:1])
			if sep == " " {
				return
			}
			pieces := strings.Split(s, sep)
			for len(pieces) > 0 && pieces[len(pieces)-1] == "" {
				pieces = pieces[:len(pieces)-1]
			}
			c.want(c16Render("{{ s | split: sep | size }}", map[string]any{"s": s, "sep": sep}), strconv.Itoa(len(pieces)))
		}
		r.Class("scaled/" + op)
		r.State("scaled:" + op)
	}})

	// non-string receivers are first converted to the text they print as
	recv := []struct {
		name string
		v    any
	}{{"nil", nil}, {"true", true}, {"false", false}, {"12", 12}, {"-3", -3}, {"1.5", 1.5}, {"2.0", 2.0}, {"1e6", 1e6}, {"2^31", float64(1 << 31)},
		{"int8", int8(5)}, {"uint", uint(7)}, {"float32", float32(2.5)}, {"bytes", []byte("ab")}, {"i64big", int64(1) << 40}}
	strf := []string{"append: ''", "prepend: ''", "upcase", "downcase", "strip", "slice: 0, 100", "truncate: 100", "replace: 'zz', 'y'", "escape", "remove: 'zz'",
		"lstrip", "rstrip", "capitalize", "truncatewords: 100", "url_encode | url_decode", "strip_newlines", "split: 'zz' | join: ''"}
	fams = append(fams, explore.Family{Name: "nonstring-receiver", Count: int64(len(recv) * len(strf)), Run: func(i int64, r *explore.Rec) {
		v, f := recv[int(i)%len(recv)], strf[int(i)/len(recv)]
		r.Eval()
		r.Transition()
		printed := c16Render("{{ v }}", map[string]any{"v": v.v})
		o := c16Render("{{ v | "+f+" }}", map[string]any{"v": v.v})
		c := c16Case{r, "nonstring:" + f, func() any { return map[string]any{"receiver": v.name, "filter": f} }}
		if !c.ok(printed) || !c.ok(o) {
			return
		}
		exp := printed.Out
		switch {
		case strings.HasPrefix(f, "upcase"):
			exp = mapRunes(exp, unicode.ToUpper)
		case strings.HasPrefix(f, "downcase"):
			exp = mapRunes(exp, unicode.ToLower)
		case f == "size":
			exp = strconv.Itoa(len(runes(exp)))
		case f == "capitalize":
			if rs := runes(exp); len(rs) > 0 {
				exp = string(unicode.ToUpper(rs[0])) + string(rs[1:])
			}
		}
		c.want(o, exp)
		r.Class("nonstring/" + f)
	}})
	nestedStr := [][2]string{{"s | strip | append: ARG", "t | upcase"}, {"s | append: ARG", "t | upcase"}, {"s | upcase | prepend: ARG", "t | downcase"}, {"s | strip | replace: ARG, 'R'", "t | downcase"},
		{"s | downcase | split: ARG | join: '+'", "sep | strip"}, {"s | strip | truncate: ARG", "n | plus: 1"}, {"s | strip | slice: ARG", "n | minus: 1"}, {"s | strip | remove: ARG | size", "t | downcase"},
		{"s | strip | append: ARG | append: ARG", "t | capitalize"}, {"s | rstrip | truncatewords: ARG", "n | minus: 2"}, {"s | strip | replace_first: ARG, ARG", "t | downcase"}}
	fams = append(fams, explore.Family{Name: "filtered-expressions-as-arguments", Count: int64(len(nestedStr)), Run: func(i int64, r *explore.Rec) {
		c := nestedStr[i]
		r.Trace()
		r.Class("nested-arg")
		nestedArgLaw(r, c16.eng, "wrong:filtered-expression-as-argument", c[0], c[1], map[string]any{"s": "  héllo wörld xy ", "t": "Xy", "sep": " o ", "n": 4})
	}})
	return fams
}

func maxInt(a, b int) int {
	if a > b {
		return a
	}
	return b
}

func init() {
	explore.Register(&explore.Prop{
		ID:    "C16",
		Level: "model_checking",
		Rule: "all strings of length <=3 (quick) / <=4 (thorough) over the 12-symbol alphabet {a B space newline é 😀 < & \" ' % +} as receivers of every string filter; " +
			"integer parameters over -3..12 (both parameters of slice over the square); string parameters over all strings of length <=1 (quick) / <=2; replace family over all non-empty patterns of length <=2; " +
			"a scaled family repeats every string of <=2 symbols 8..65536 times (21 lengths around powers of two, 50, 70) through 16 operations with slice/truncate at the boundaries of the length; oracle = rune-based reference functions and the laws listed in the statement; class = (filter, case kind); state = filter; transition = one filter application",
		Assumptions: []string{
			"left unspecified (no-error and UTF-8 validity still checked): truncate with n smaller than the ellipsis, truncatewords with n < 1, slice with an out-of-range start or negative length (must yield a substring of at most n characters), empty search pattern",
			"reference case mapping is per-rune unicode.ToUpper/ToLower",
		},
		Setup: func(string) {
			c16.eng = liquid.NewEngine()
			c16.tpl = map[string]*liquid.Template{}
		},
		Families: c16Families,
		Bound: func(tier string) string {
			if tier == "thorough" {
				return "strings <=4 over 12 symbols (22621); ints -3..12; string args <=2"
			}
			return "strings <=3 over 12 symbols (1885); ints -3..12; string args <=1"
		},
	})
}
