package props

import (
	"fmt"
	"os"
	"path/filepath"
	"strconv"
	"strings"

	"github.com/osteele/liquid"
	"verifmc/explore"
)

// C14 — include renders the named file (or cached source) with the current variables.

var c14 struct {
	root string
}

// file states
const (
	fsDisk = iota
	fsCache
	fsBoth
	fsMissing
)

var c14StateName = []string{"disk", "cache-only", "disk+cache(different)", "missing"}

// logical files, relative to the main template's directory
var c14Files = []string{"a.inc", "a2.inc", "sub/b.inc"}

type c14Graph struct {
	name  string
	main  string            // body of the main template; INC(file) marks an include of that file
	files map[string]string // bodies of included files (may contain INC)
}

var c14Graphs = []c14Graph{
	{"main->a", "M[INC(a.inc)]", map[string]string{"a.inc": "A(BODY)"}},
	{"main->a->a2", "M[INC(a.inc)]", map[string]string{"a.inc": "A(INC(a2.inc))", "a2.inc": "A2(BODY)"}},
	{"main->b", "M[INC(sub/b.inc)]", map[string]string{"sub/b.inc": "B(BODY)"}},
	{"main->a,b", "M[INC(a.inc)|INC(sub/b.inc)]", map[string]string{"a.inc": "A(BODY)", "sub/b.inc": "B(BODY)"}},
	{"main->a->a2,main->b,main->a", "M[INC(a.inc)/INC(sub/b.inc)/INC(a.inc)]", map[string]string{"a.inc": "A(INC(a2.inc))", "a2.inc": "A2(BODY)", "sub/b.inc": "B(BODY)"}},
	{"main->a2,a (loop)", "M[{% for i in (1..2) %}INC(a2.inc){% endfor %}INC(a.inc)]", map[string]string{"a.inc": "A(BODY)", "a2.inc": "A2(BODY)"}},
}

// c14EdgeGraph: the included file begins and ends with trim-marked objects and the includer has whitespace
// around the include tag. The file's standalone rendering is constant ("x<which>y"), so the expectation is
// written down directly: textual inlining would (wrongly, for this property) let the file's markers trim the
// includer's whitespace.
const c14EdgeName = "main->a (file edges carry trim markers, includer has whitespace around the tag)"

func init() {
	c14Graphs = append(c14Graphs, c14Graph{c14EdgeName, "M[ \t\n INC(a.inc) \n ]", map[string]string{"a.inc": `{{- "x" }}EDGE{{ "y" -}}`}})
}

var c14Bodies = []struct {
	name, src string
	fails     bool
}{
	{"reads top-level and assigned variables", "{{ top }}|{{ asg }}|{% for i in l %}{{ i }}{% endfor %}", false},
	{"assigns and reads", "{% assign inner = top | append: '!' %}{{ inner }}{{ asg }}", false},
	{"failing filter", "x{{ 1 | divided_by: 0 }}", true},
	{"syntax error", "y{{ | }}", true},
}

// how the include argument is written; %s is the relative file name
var c14Args = []struct {
	name  string
	tag   func(rel string, n int) (pre, arg string, bind map[string]any)
	fails bool
}{
	{"string literal", func(rel string, n int) (string, string, map[string]any) { return "", `"` + rel + `"`, nil }, false},
	{"variable", func(rel string, n int) (string, string, map[string]any) {
		v := fmt.Sprintf("p%d", n)
		return "", v, map[string]any{v: rel}
	}, false},
	{"variable assigned earlier in the render", func(rel string, n int) (string, string, map[string]any) {
		v := fmt.Sprintf("q%d", n)
		return `{% assign ` + v + ` = "` + rel + `" %}`, v, nil
	}, false},
	{"filtered expression", func(rel string, n int) (string, string, map[string]any) {
		return "", `"` + rel[:1] + `" | append: "` + rel[1:] + `"`, nil
	}, false},
	{"property of a map", func(rel string, n int) (string, string, map[string]any) {
		v := fmt.Sprintf("cfg%d", n)
		return "", v + ".file", map[string]any{v: map[string]any{"file": rel}}
	}, false},
	{"non-string: integer", func(rel string, n int) (string, string, map[string]any) { return "", "12", nil }, true},
	{"non-string: nil", func(rel string, n int) (string, string, map[string]any) { return "", "nothing", nil }, true},
	{"non-string: list", func(rel string, n int) (string, string, map[string]any) { return "", "l", nil }, true},
	// the file name written WITHOUT quotes: a variable path (or a syntax error) whose value is nil, although a file of
	// exactly that spelling exists
	{"non-string: unquoted file name", func(rel string, n int) (string, string, map[string]any) { return "", rel, nil }, true},
}

var c14Mains = []string{"main.html", "sub/main.html", "deep/er/main.html"}

// expand replaces INC(f) markers; inline=true substitutes the resolved content (reference inliner),
// otherwise it writes include tags.
func c14Expand(body string, argForm int, counter *int, binds map[string]any, resolve func(string) (string, bool)) (string, bool) {
	ok := true
	var sb strings.Builder
	for {
		i := strings.Index(body, "INC(")
		if i < 0 {
			sb.WriteString(body)
			break
		}
		j := i + strings.Index(body[i:], ")")
		f := body[i+4 : j]
		sb.WriteString(body[:i])
		if resolve != nil {
			content, found := resolve(f)
			if !found {
				ok = false
			}
			sub, k := c14Expand(content, argForm, counter, binds, resolve)
			ok = ok && k
			sb.WriteString(sub)
		} else {
			*counter++
			pre, arg, b := c14Args[argForm].tag(f, *counter)
			for k, v := range b {
				binds[k] = v
			}
			sb.WriteString(pre + "{% include " + arg + " %}")
		}
		body = body[j+1:]
	}
	return sb.String(), ok
}

func c14Families(tier string) []explore.Family {
	graphs := c14Graphs
	mains := c14Mains[:2]
	if tier == "thorough" {
		mains = c14Mains
	}
	nCfg := 64
	G, A, B, M := len(graphs), len(c14Args), len(c14Bodies), len(mains)
	return []explore.Family{c14ChangeFamily(), c14TwoRootsFamily(), c14ChainFamily(), c14NamesFamily(), c14ScopeFamily(), c14BareNameFamily(), c14RepeatedTagFamily(), {Name: "include-configurations", Count: int64(nCfg * G * A * B * M * 2), Run: func(i int64, r *explore.Rec) {
		rx := radix{i}
		noPath := rx.next(2) == 1
		mi, bi, ai, gi, cfg := rx.next(M), rx.next(B), rx.next(A), rx.next(G), rx.next(nCfg)
		g, body, argf := graphs[gi], c14Bodies[bi], c14Args[ai]
		states := map[string]int{}
		for k, f := range c14Files {
			states[f] = (cfg >> uint(2*k)) & 3
		}
		if noPath && mi != 0 {
			return
		}
		if g.name == c14EdgeName && bi != 0 {
			return // this graph's file content is fixed
		}
		// lay out the configuration in the worker's private directory
		dir := filepath.Join(c14.root, fmt.Sprintf("m%d", mi))
		os.RemoveAll(dir)
		mainPath := filepath.Join(dir, mains[mi])
		mainDir := filepath.Dir(mainPath)
		if noPath {
			// no path: includes resolve against the process directory; use the cache only, under relative names
			mainPath, mainDir = "", "."
			for f, st := range states {
				if st == fsDisk {
					states[f] = fsCache
				} else if st == fsBoth {
					states[f] = fsMissing
				}
			}
		}
		eng := liquid.NewEngine()
		stored := map[string]string{} // logical file -> name used in include tags
		for _, f := range c14Files {
			stored[f] = f
			if noPath {
				stored[f] = "c14np_" + strings.ReplaceAll(f, "/", "_")
			}
		}
		// raw content keeps INC(logical) markers; tagged() turns them into literal include tags
		raw := func(f, which string) string {
			b := g.files[f]
			if b == "" {
				b = "UNUSED"
			}
			if g.name == c14EdgeName && f == "a.inc" {
				return strings.ReplaceAll(b, "EDGE", "<"+which+">")
			}
			return strings.ReplaceAll(b, "BODY", body.src) + "<" + which + ">"
		}
		tagged := func(s string) string {
			for _, f := range c14Files {
				s = strings.ReplaceAll(s, "INC("+f+")", `{% include "`+stored[f]+`" %}`)
			}
			return s
		}
		resolved := map[string]string{} // logical file -> raw content that an include of it must render
		for _, f := range c14Files {
			full := filepath.Join(mainDir, stored[f])
			st := states[f]
			if st == fsDisk || st == fsBoth {
				os.MkdirAll(filepath.Dir(full), 0o755)
				if err := os.WriteFile(full, []byte(tagged(raw(f, "disk"))), 0o644); err != nil {
					panic("harness: " + err.Error())
				}
				resolved[f] = raw(f, "disk")
			}
			if st == fsCache || st == fsBoth {
				if _, err := eng.ParseTemplateAndCache([]byte(tagged(raw(f, "cache"))), full, 1); err != nil {
					return // a source that does not parse cannot be registered in the cache through the API
				}
				if st == fsCache {
					resolved[f] = raw(f, "cache")
				}
			}
		}
		binds := map[string]any{"top": "T", "l": []any{1, 2}}
		counter := 0
		mainBody := g.main
		for _, f := range c14Files {
			mainBody = strings.ReplaceAll(mainBody, "INC("+f+")", "INC("+stored[f]+")")
		}
		mainSrc, _ := c14Expand(mainBody, ai, &counter, binds, nil)
		mainSrc = "{% assign asg = 'S' %}" + mainSrc + "{{ asg }}"
		usedNames := stored
		desc := func() any {
			st := map[string]string{}
			for _, f := range c14Files {
				st[f] = c14StateName[states[f]]
			}
			return map[string]any{"main_path": mainPath, "main": mainSrc, "graph": g.name, "file_states": st, "included_body": body.name, "argument": argf.name}
		}
		r.Eval()
		var o Outcome
		o.Panic = explore.Safe(func() {
			tpl, err := eng.ParseTemplateLocation([]byte(mainSrc), mainPath, 1)
			if err != nil {
				o.Err = err
				return
			}
			out, err := tpl.Render(binds)
			o.Out, o.Err = string(out), err
		})
		r.Class(fmt.Sprintf("%s/%s/%s", g.name, argf.name, o.Class()))
		if o.Panic != nil {
			r.Violation(o.Panic.Key(), desc(), "output or SourceError", o.String())
			return
		}
		// reference: inline every include
		inlined, allResolve := c14Expand(g.main, 0, new(int), map[string]any{}, func(f string) (string, bool) {
			c, ok := resolved[f]
			if ok && g.name == c14EdgeName {
				which := "disk"
				if strings.Contains(c, "<cache>") {
					which = "cache"
				}
				return "x<" + which + ">y", true
			}
			return c, ok
		})
		expectErr := !allResolve || argf.fails
		if body.fails && strings.Contains(inlined, body.src) {
			expectErr = true
		}
		if expectErr {
			if o.Err == nil {
				r.Violation("N2:no-error", desc(), "a SourceError (missing file, non-string argument or error inside the included template)", o.String())
			} else {
				if o.Out != "" {
					r.Violation("N2:output-with-error", desc(), "no output", o.Out)
				}
				if !allResolve && !argf.fails && !body.fails && firstMissingReached(g, states, resolved, usedNames) && !reaches(o.Err.Cause(), os.IsNotExist) && !reaches(o.Err, os.IsNotExist) {
					r.Violation("N2:cause-not-notexist", desc(), "Cause() satisfies os.IsNotExist", fmt.Sprintf("%v", o.Err.Cause()))
				}
			}
			return
		}
		// (N1) output equals rendering the inlined content directly
		r.Eval()
		want := Render(eng, "{% assign asg = 'S' %}"+inlined+"{{ asg }}", map[string]any{"top": "T", "l": []any{1, 2}})
		if want.Err != nil || want.Panic != nil {
			panic(explore.BaselineFailure{Msg: "harness: inlined reference fails: " + want.String()})
		}
		if o.Err != nil || o.Out != want.Out {
			r.Violation("N1:differs-from-inlined", desc(), want.String(), o.String())
		}
		if r.WantSample() {
			r.Sample(map[string]any{"case": desc(), "observed": o.String()})
		}
	}}}
}

// c14ChangeFamily: on ONE engine and one parsed main template, the included file goes through every sequence
// of two or three states from {disk v1, disk v2, deleted (cache fallback), deleted (no cache)}; every render
// must reflect the file as it is at that moment (a compiled-include cache must not serve a superseded file).
func c14ChangeFamily() explore.Family {
	states := []string{"disk-v1", "disk-v2", "cache-only", "missing"}
	n := len(states)
	return explore.Family{Name: "file-changes-between-renders", Count: int64(n * n * n * 2 * 2), Run: func(i int64, r *explore.Rec) {
		rx := radix{i}
		nested, withCache := rx.next(2) == 1, rx.next(2) == 1
		seq := []string{states[rx.next(n)], states[rx.next(n)], states[rx.next(n)]}
		dir := filepath.Join(c14.root, "chg")
		os.RemoveAll(dir)
		os.MkdirAll(dir, 0o755)
		mainPath := filepath.Join(dir, "main.html")
		eng := liquid.NewEngine()
		target := "a.inc"
		if nested {
			// main -> outer (stable) -> a
			if err := os.WriteFile(filepath.Join(dir, "outer.inc"), []byte(`o({% include "a.inc" %})`), 0o644); err != nil {
				panic(err)
			}
			target = "outer.inc"
		}
		if withCache {
			if _, err := eng.ParseTemplateAndCache([]byte("CACHED{{ top }}"), filepath.Join(dir, "a.inc"), 1); err != nil {
				panic(err)
			}
		}
		tpl, err := eng.ParseTemplateLocation([]byte(`M[{% include "`+target+`" %}]`), mainPath, 1)
		if err != nil {
			panic("harness: " + err.Error())
		}
		var hist []string
		for _, st := range seq {
			hist = append(hist, st)
			full := filepath.Join(dir, "a.inc")
			want, wantErr := "", false
			switch st {
			case "disk-v1":
				os.WriteFile(full, []byte("V1{{ top }}"), 0o644)
				want = "V1T"
			case "disk-v2":
				os.WriteFile(full, []byte("version two {{ top | downcase }}"), 0o644)
				want = "version two t"
			default:
				os.Remove(full)
				if withCache {
					want = "CACHEDT"
				} else {
					wantErr = true
				}
			}
			if nested {
				want = "o(" + want + ")"
			}
			want = "M[" + want + "]"
			r.Eval()
			var o Outcome
			o.Panic = explore.Safe(func() {
				out, err := tpl.Render(map[string]any{"top": "T"})
				o.Out, o.Err = string(out), err
			})
			desc := func() any {
				return map[string]any{"file_states_in_order": hist, "nested": nested, "cache_entry_registered": withCache, "main": `M[{% include "` + target + `" %}]`}
			}
			r.Class(fmt.Sprintf("change/%s/%s", st, o.Class()))
			switch {
			case o.Panic != nil:
				r.Violation(o.Panic.Key(), desc(), "output or SourceError", o.String())
				return
			case wantErr && o.Err == nil:
				r.Violation("N2:no-error-after-file-removed", desc(), "a SourceError (file removed, nothing cached)", o.String())
				return
			case !wantErr && (o.Err != nil || o.Out != want):
				r.Violation("N1:stale-or-wrong-content-after-file-change", desc(), want, o.String())
				return
			}
		}
	}}
}

// c14TwoRootsFamily: ONE engine, two top-level templates in different directories that include the same
// shared file (which itself includes a file by a relative name). Whatever the resolution rule of the nested
// include is, the result of rendering a root must not depend on which other root was rendered on the engine
// before: every order of the two roots is compared with each root rendered alone on a fresh engine.
func c14TwoRootsFamily() explore.Family {
	type layout struct{ name, rootA, rootB, incA, incB string }
	layouts := []layout{
		{"shared file reached from two directories", "main.html", "sub/index.html", "common/shared.inc", "../common/shared.inc"},
		{"same relative name in two directories", "main.html", "sub/index.html", "part.inc", "part.inc"},
		{"sibling directories", "x/one.html", "y/two.html", "../common/shared.inc", "../common/shared.inc"},
	}
	orders := [][]int{{0, 1}, {1, 0}, {0, 1, 0}, {1, 0, 1}, {0, 0, 1}, {1, 1, 0}}
	return explore.Family{Name: "two-roots-one-engine", Count: int64(len(layouts) * len(orders) * 2), Run: func(i int64, r *explore.Rec) {
		rx := radix{i}
		sameLine, ord, lay := rx.next(2) == 1, orders[rx.next(len(orders))], layouts[rx.next(len(layouts))]
		dir := filepath.Join(c14.root, "two")
		os.RemoveAll(dir)
		write := func(rel, content string) {
			full := filepath.Join(dir, rel)
			os.MkdirAll(filepath.Dir(full), 0o755)
			if err := os.WriteFile(full, []byte(content), 0o644); err != nil {
				panic(err)
			}
		}
		// leaves with the same relative name in every directory a nested include could resolve against
		for _, d := range []string{"", "sub", "common", "x", "y"} {
			write(filepath.Join(d, "leaf.inc"), "<leaf in '"+d+"' for {{ who }}>")
			write(filepath.Join(d, "part.inc"), "part in '"+d+"'[{% include \"leaf.inc\" %}]")
		}
		write("common/shared.inc", "shared[{% include \"leaf.inc\" %}]")
		pad := ""
		if !sameLine {
			pad = "\n\n"
		}
		srcs := []string{"A:{% include \"" + lay.incA + "\" %}", pad + "B:{% include \"" + lay.incB + "\" %}"}
		paths := []string{filepath.Join(dir, lay.rootA), filepath.Join(dir, lay.rootB)}
		render := func(e *liquid.Engine, k int) string {
			var o Outcome
			o.Panic = explore.Safe(func() {
				tpl, err := e.ParseTemplateLocation([]byte(srcs[k]), paths[k], 1)
				if err != nil {
					o.Err = err
					return
				}
				out, err := tpl.Render(map[string]any{"who": []string{"a", "b"}[k]})
				o.Out, o.Err = string(out), err
			})
			return strings.ReplaceAll(o.Sig(), dir, "$DIR")
		}
		solo := []string{render(liquid.NewEngine(), 0), render(liquid.NewEngine(), 1)}
		shared := liquid.NewEngine()
		var hist []string
		for _, k := range ord {
			hist = append(hist, []string{lay.rootA, lay.rootB}[k])
			r.Eval()
			got := render(shared, k)
			if got != solo[k] {
				r.Violation("depends-on-earlier-render-of-another-root", map[string]any{"layout": lay.name, "rendered_in_order": hist, "templates": srcs, "same_line": sameLine},
					"as on a fresh engine: "+solo[k], got)
				return
			}
		}
		r.Class("two-roots/" + lay.name)
	}}
}

// c14NamesFamily: the cache is keyed by the NAME: two names that differ only in what some file systems ignore (the
// separator spelling, letter case, a trailing blank or dot, a doubled separator, Unicode normal form) are different
// files. Each of the two is registered with its own content (both / only the first / only the second); an include
// of a name renders that name's source, and fails when that name is not registered.
func c14NamesFamily() explore.Family {
	pairs := [][2]string{{"p/x.html", `p\x.html`}, {"x.html", "X.html"}, {"x.html", "x.html "}, {"x.html", "x.html."}, {"p/x.html", "p//x.html"},
		{"é.html", "e\u0301.html"}, {"x.html", "x.htm"}, {"a/b.html", "a_b.html"}, {"x.html", "./p/../x.html"}}
	return explore.Family{Name: "names-differing-in-what-file-systems-ignore", Count: int64(len(pairs) * 3), Run: func(i int64, r *explore.Rec) {
		pr, mode := pairs[int(i)/3], int(i)%3
		dir, err := os.MkdirTemp("", "c14names")
		if err != nil {
			panic(explore.BaselineFailure{Msg: "harness: " + err.Error()})
		}
		defer os.RemoveAll(dir)
		eng := liquid.NewEngine()
		main := filepath.Join(dir, "main.html")
		reg := func(name, content string) {
			// the name the include tag will compute: dir of the includer joined with the argument
			if _, err := eng.ParseTemplateAndCache([]byte(content), filepath.Join(dir, name), 1); err != nil {
				panic(explore.BaselineFailure{Msg: "harness: " + err.Error()})
			}
		}
		has := [2]bool{mode != 2, mode != 1}
		if has[0] {
			reg(pr[0], "ONE")
		}
		if has[1] {
			reg(pr[1], "TWO")
		}
		for k := 0; k < 2; k++ {
			if filepath.Join(dir, pr[k]) == filepath.Join(dir, pr[1-k]) {
				return // the two spellings are the same name after the join the include tag performs
			}
		}
		for k := 0; k < 2; k++ {
			src := "[{% include n %}]"
			r.Eval()
			r.Trace()
			var o Outcome
			o.Panic = explore.Safe(func() {
				tpl, perr := eng.ParseTemplateLocation([]byte(src), main, 1)
				if perr != nil {
					o.Err = perr
					return
				}
				out, rerr := tpl.Render(map[string]any{"n": pr[k]})
				o.Out, o.Err = string(out), rerr
			})
			desc := map[string]any{"included_name": strconv.Quote(pr[k]), "other_name": strconv.Quote(pr[1-k]), "registered": fmt.Sprint(has)}
			want := []string{"[ONE]", "[TWO]"}[k]
			r.Class("names/" + o.Class())
			switch {
			case o.Panic != nil:
				r.Violation("N4:names:panic", desc, "output or error", o.String())
			case has[k] && (o.Err != nil || o.Out != want):
				r.Violation("N4:names:other-source-rendered", desc, want, o.String())
			case !has[k] && o.Err == nil:
				r.Violation("N4:names:missing-name-rendered", desc, "a SourceError: no file and no cached source of that name", o.String())
			}
		}
	}}
}

// c14ScopeFamily: what the variables of the includer look like after an include cannot depend on WHERE in the
// included file a binding tag sits (at the top, in the first branch of an if, in an else / elsif / when clause,
// nested two clauses deep, in a loop body): the file is rendered the same way in all of them. The reference is the
// same file with the tag at its top level; readers: the includer, a later include, a file that itself includes,
// the next iteration of a loop around the include, the text captured around it.
func c14ScopeFamily() explore.Family {
	places := []string{"X", "{% if true %}X{% endif %}", "{% if false %}{% else %}X{% endif %}", "{% if false %}{% elsif true %}X{% endif %}",
		"{% case 1 %}{% when 1 %}X{% endcase %}", "{% case 1 %}{% when 2 %}{% else %}X{% endcase %}", "{% unless true %}{% else %}X{% endunless %}",
		"{% for q in (1..1) %}X{% endfor %}", "{% if false %}{% elsif false %}{% else %}{% case 1 %}{% when 1 %}X{% endcase %}{% endif %}",
		"{% case i %}{% when 2 %}X{% endcase %}"}
	binders := []string{"{% assign y = 'inc' %}", "{% capture y %}inc{% endcapture %}", "{% assign y = y | append: '+' %}", "{% for y in (7..7) %}{% endfor %}", "{% assign y = 'inc' %}{{ y }}"}
	mains := []string{
		// (the included file is named like the variable it reads: the includer's value is what it sees)
		"{% assign y = 'main' %}{% include 'p.inc' %}{% include 'y.inc' %}{% include 'sub/y.inc' %}",
		"{% assign y = 'main' %}{% include 'p.inc' %}[{{ y }}]",
		"{% include 'p.inc' %}[{{ y }}]",
		"{% assign y = 'main' %}{% include 'p.inc' %}{% include 'show.inc' %}",
		"{% for i in (1..3) %}{% include 'p.inc' %}{{ y }};{% endfor %}{{ y }}",
		"{% capture c %}{% include 'p.inc' %}{% endcapture %}{{ y }}|{{ c }}",
		"{% assign y = 'main' %}{% include 'outer.inc' %}{{ y }}",
		"{% if true %}{% include 'p.inc' %}{% endif %}{% include 'outer.inc' %}{{ y }}",
	}
	return explore.Family{Name: "bindings-made-anywhere-in-the-included-file", Count: int64(len(places) * len(binders) * len(mains) * 2), Run: func(i int64, r *explore.Rec) {
		rx := radix{i}
		cached, pi, bi, mi := rx.next(2) == 1, rx.next(len(places)), rx.next(len(binders)), rx.next(len(mains))
		if pi == 0 {
			return // the reference itself
		}
		dir := filepath.Join(c14.root, "scope")
		render := func(place string) Outcome {
			os.RemoveAll(dir)
			os.MkdirAll(dir, 0o755)
			eng := liquid.NewEngine()
			put := func(name, content string) {
				full := filepath.Join(dir, name)
				if cached {
					if _, err := eng.ParseTemplateAndCache([]byte(content), full, 1); err != nil {
						panic(explore.BaselineFailure{Msg: err.Error()})
					}
					return
				}
				if err := os.WriteFile(full, []byte(content), 0o644); err != nil {
					panic(err)
				}
			}
			put("p.inc", "<"+strings.Replace(place, "X", binders[bi], 1)+">")
			put("show.inc", "({{ y }})")
			put("y.inc", "<y={{ y }}>")
			os.MkdirAll(filepath.Join(dir, "sub"), 0o755)
			put("sub/y.inc", "<sub-y={{ y }}{% if y %}T{% else %}F{% endif %}>")
			put("outer.inc", "{% include 'p.inc' %}{% include 'show.inc' %}")
			var o Outcome
			o.Panic = explore.Safe(func() {
				tpl, err := eng.ParseTemplateLocation([]byte(mains[mi]), filepath.Join(dir, "main.html"), 1)
				if err != nil {
					o.Err = err
					return
				}
				out, rerr := tpl.Render(map[string]any{})
				o.Out, o.Err = string(out), rerr
			})
			return o
		}
		ref := places[0]
		if strings.Contains(places[pi], "case i") {
			// taken in one iteration only: compare with the same clause around a top-level-like if
			ref = "{% if i == 2 %}X{% endif %}"
		}
		r.Eval()
		r.Transition()
		want, got := render(ref), render(places[pi])
		r.Class(fmt.Sprintf("scope/%d/%d/%s", bi, mi, got.Class()))
		r.State(fmt.Sprintf("scope:main%d", mi))
		if want.Panic != nil || want.Err != nil {
			panic(explore.BaselineFailure{Msg: "harness: reference placement fails: " + want.String()})
		}
		if mi == 0 && want.Err == nil && !strings.Contains(want.Out, "<y=main><sub-y=mainT>") {
			r.Violation("N1:included-file-does-not-see-the-includers-variable", map[string]any{"main": mains[mi], "y.inc": "<y={{ y }}>", "sub/y.inc": "<sub-y={{ y }}{% if y %}T{% else %}F{% endif %}>"}, "...<y=main><sub-y=mainT>", want.String())
		}
		if got.String() != want.String() {
			r.Violation("N3:binding-place-in-included-file-matters", map[string]any{"main": mains[mi], "p.inc": "<" + strings.Replace(places[pi], "X", binders[bi], 1) + ">", "show.inc": "({{ y }})", "outer.inc": "{% include 'p.inc' %}{% include 'show.inc' %}", "cached": cached},
				want.String()+" (as with the tag at the top level of p.inc)", got.String())
		}
	}}
}

// c14BareNameFamily: a source cached under a BARE relative name is not what an include from another directory means:
// {% include "x.inc" %} in d/main.html is d/x.inc - with nothing there (disk or cache) the render fails, whatever
// else the cache holds under "x.inc", "./x.inc" or the name relative to another directory.
func c14BareNameFamily() explore.Family {
	decoys := []string{"x.inc", "./x.inc", "other/x.inc", "/x.inc", "d/../x.inc"}
	mains := []string{`{% include "x.inc" %}`, `{% assign n = "x.inc" %}{% include n %}`, `{% include "x" | append: ".inc" %}`}
	return explore.Family{Name: "sources-cached-under-other-names", Count: int64(len(decoys) * len(mains) * 2 * 2), Run: func(i int64, r *explore.Rec) {
		rx := radix{i}
		present, abs, main, decoy := rx.next(2) == 1, rx.next(2) == 1, mains[rx.next(len(mains))], decoys[rx.next(len(decoys))]
		eng := liquid.NewEngine()
		base := "site"
		if abs {
			base = filepath.Join(c14.root, "bare", "site")
		}
		if _, err := eng.ParseTemplateAndCache([]byte("DECOY"), decoy, 1); err != nil {
			panic(explore.BaselineFailure{Msg: err.Error()})
		}
		if present {
			if _, err := eng.ParseTemplateAndCache([]byte("REAL"), filepath.Join(base, "d", "x.inc"), 1); err != nil {
				panic(explore.BaselineFailure{Msg: err.Error()})
			}
		}
		r.Eval()
		r.Transition()
		var o Outcome
		o.Panic = explore.Safe(func() {
			tpl, err := eng.ParseTemplateLocation([]byte(main), filepath.Join(base, "d", "main.html"), 1)
			if err != nil {
				o.Err = err
				return
			}
			out, rerr := tpl.Render(map[string]any{})
			o.Out, o.Err = string(out), rerr
		})
		r.Class(fmt.Sprintf("bare-name/%v/%s", present, o.Class()))
		r.State("bare-name")
		desc := map[string]any{"main": main, "main_path": filepath.Join(base, "d", "main.html"), "cached_decoy": decoy, "real_file_cached": present}
		switch {
		case o.Panic != nil:
			r.Violation("N2:panic", desc, "output or a SourceError", o.String())
		case present && (o.Err != nil || o.Out != "REAL"):
			r.Violation("N1:wrong-file", desc, "REAL", o.String())
		case !present && o.Err == nil:
			r.Violation("N2:no-error:source-cached-under-another-name-rendered", desc, "a SourceError: there is no d/x.inc", o.String())
		}
	}}
}

// c14RepeatedTagFamily: ONE include tag run several times in one render (a loop) or over several renders of one parsed
// template, its name expression giving another string each time - every sequence of 1..3 names over three files in
// two directories; the name computed by a filter in the tag, assigned beforehand, or bound by the caller; the variable
// the files print reassigned between the runs. Each run renders the file ITS name means, with the variables of that moment.
func c14RepeatedTagFamily() explore.Family {
	files := []struct{ name, body, tag string }{{"a", "[A {{ v }}]", "A"}, {"b", "[B {{ v }}{% assign v = 'b' %}]", "B"}, {"sub/c", "[C {{ v }}]", "C"}}
	forms := []string{
		`{% for n in names %}{% assign v = forloop.index %}{% include n | append: ".inc" %}{% endfor %}`,
		`{% for n in names %}{% assign v = forloop.index %}{% assign f = n | append: ".inc" %}{% include f %}{% endfor %}`,
		`{% tablerow n in names %}{% assign v = forloop.index %}{% include n | append: ".inc" %}{% endtablerow %}`,
		"renders",
	}
	nSeq := int(seqCount(len(files), 3)) - 1
	return explore.Family{Name: "one-include-tag-run-many-times", Count: int64(nSeq * len(forms) * 2), Run: func(i int64, r *explore.Rec) {
		rx := radix{i}
		abs, form, seq := rx.next(2) == 1, forms[rx.next(len(forms))], seqAt(len(files), int64(rx.next(nSeq))+1)
		eng := liquid.NewEngine()
		base := "site"
		if abs {
			base = filepath.Join(c14.root, "repeated", "site")
		}
		for _, f := range files {
			if _, err := eng.ParseTemplateAndCache([]byte(f.body), filepath.Join(base, "d", f.name+".inc"), 1); err != nil {
				panic(explore.BaselineFailure{Msg: err.Error()})
			}
		}
		var names []any
		var want strings.Builder
		for j, k := range seq {
			names = append(names, files[k].name)
			cell := fmt.Sprintf("[%s %d]", files[k].tag, j+1)
			if strings.HasPrefix(form, "{% tablerow") {
				if j == 0 {
					want.WriteString("<tr class=\"row1\">")
				}
				cell = fmt.Sprintf("<td class=\"col%d\">%s</td>", j+1, cell)
			}
			want.WriteString(cell)
		}
		if strings.HasPrefix(form, "{% tablerow") {
			want.WriteString("</tr>")
		}
		r.Eval()
		r.Transition()
		var o Outcome
		o.Panic = explore.Safe(func() {
			src := form
			if form == "renders" {
				src = `{% include f %}`
			}
			tpl, err := eng.ParseTemplateLocation([]byte(src), filepath.Join(base, "d", "main.html"), 1)
			if err != nil {
				o.Err = err
				return
			}
			if form != "renders" {
				out, rerr := tpl.Render(map[string]any{"names": names})
				o.Out, o.Err = string(out), rerr
				return
			}
			for j, n := range names {
				out, rerr := tpl.Render(map[string]any{"f": n.(string) + ".inc", "v": j + 1})
				o.Out += string(out)
				if rerr != nil {
					o.Err = rerr
					return
				}
			}
		})
		r.Class(fmt.Sprintf("repeated-tag/%d/%s", len(seq), o.Class()))
		r.State("repeated-tag:" + fmt.Sprint(len(seq)))
		norm := strings.ReplaceAll(strings.ReplaceAll(o.Out, "\n", ""), "\t", "")
		if o.Panic != nil || o.Err != nil || norm != want.String() {
			r.Violation("N1:one-include-tag-run-many-times", map[string]any{"main": form, "names": names, "files": "d/a.inc=[A {{ v }}] d/b.inc=[B {{ v }}{% assign v = 'b' %}] d/sub/c.inc=[C {{ v }}]"}, want.String(), o.String())
		}
	}}
}

// c14ChainFamily: include chains of depth 1..12 (file k includes file k+1) and templates with 1..40 sibling
// includes, on disk and from the cache; the last file of a chain may be missing.
func c14ChainFamily() explore.Family {
	depths := []int{1, 2, 3, 4, 7, 8, 9, 12}
	return explore.Family{Name: "include-chains-and-many-siblings", Count: int64(len(depths) * 2 * 2 * 2), Run: func(i int64, r *explore.Rec) {
		rx := radix{i}
		siblings, lastMissing, cached, d := rx.next(2) == 1, rx.next(2) == 1, rx.next(2) == 1, depths[rx.next(len(depths))]
		dir := filepath.Join(c14.root, "chain")
		os.RemoveAll(dir)
		os.MkdirAll(dir, 0o755)
		eng := liquid.NewEngine()
		put := func(name, content string) {
			full := filepath.Join(dir, name)
			if cached {
				if _, err := eng.ParseTemplateAndCache([]byte(content), full, 1); err != nil {
					panic(explore.BaselineFailure{Msg: err.Error()})
				}
				return
			}
			if err := os.WriteFile(full, []byte(content), 0o644); err != nil {
				panic(err)
			}
		}
		var mainSrc, want string
		if siblings {
			n := d * 3 // 3..36 sibling includes
			for k := 0; k < n; k++ {
				if !(lastMissing && k == n-1) {
					put(fmt.Sprintf("s%d.inc", k), fmt.Sprintf("<%d:{{ v }}>", k))
				}
				mainSrc += fmt.Sprintf("{%% assign v = %d %%}{%% include \"s%d.inc\" %%}", k*k, k)
				want += fmt.Sprintf("<%d:%d>", k, k*k)
			}
		} else {
			for k := 1; k <= d; k++ {
				if lastMissing && k == d {
					break
				}
				body := fmt.Sprintf("[%d{{ v }}", k)
				if k < d {
					body += fmt.Sprintf("{%% include \"c%d.inc\" %%}", k+1)
				}
				put(fmt.Sprintf("c%d.inc", k), body+"]")
			}
			mainSrc = "{% assign v = 'V' %}{% include \"c1.inc\" %}"
			want = ""
			for k := 1; k <= d; k++ {
				want += fmt.Sprintf("[%dV", k)
			}
			want += strings.Repeat("]", d)
		}
		r.Eval()
		var o Outcome
		o.Panic = explore.Safe(func() {
			tpl, err := eng.ParseTemplateLocation([]byte(mainSrc), filepath.Join(dir, "main.html"), 1)
			if err != nil {
				o.Err = err
				return
			}
			out, err := tpl.Render(map[string]any{})
			o.Out, o.Err = string(out), err
		})
		desc := func() any {
			return map[string]any{"main": trunc80(mainSrc), "depth_or_count": d, "siblings": siblings, "last_file_missing": lastMissing, "from_cache": cached}
		}
		r.Class(fmt.Sprintf("chain/%v/%v", siblings, lastMissing))
		switch {
		case o.Panic != nil:
			r.Violation(o.Panic.Key(), desc(), "output or SourceError", o.String())
		case lastMissing:
			if o.Err == nil || o.Out != "" {
				r.Violation("N2:no-error", desc(), "a SourceError (the last file is missing)", trunc80(o.String()))
			}
		case o.Err != nil || o.Out != want:
			r.Violation("N1:wrong-chain-output", desc(), trunc80(want), trunc80(o.String()))
		}
	}}
}

// firstMissingReached tells whether the first failure on the render path is a missing file
// (an earlier failing body would be reported instead).
func firstMissingReached(g c14Graph, states map[string]int, resolved map[string]string, used map[string]string) bool {
	for _, f := range c14Files {
		if _, needed := g.files[f]; needed {
			if _, ok := resolved[f]; !ok {
				return !strings.Contains(g.name, "(loop)") || true
			}
		}
	}
	return false
}

func init() {
	explore.Register(&explore.Prop{
		ID:    "C14",
		Level: "fault_enumeration",
		Rule: "three files (a, a2, sub/b relative to the main template) each independently on disk / in the cache only / in both with different content / missing (4^3 = 64 configurations; 'missing' is the injected fault) x 7 acyclic include graphs (one whose file edges carry trim markers) x 9 argument forms (literal, variable, variable assigned earlier, filtered expression, map property, four non-strings incl. the file name written without quotes) x 4 included bodies (reads variables, assigns, failing filter, syntax error) x main template parsed at 2 (quick) / 3 directory depths and without a path; " +
			"a second family changes the included file between renders of one parsed template on one engine (all sequences of 3 states from {disk v1, disk v2, removed with/without cache entry}, direct and nested); a third family renders two roots from different directories that share an included file on ONE engine in every order (each result must equal the fresh-engine result); one include tag run many times (every sequence of 1..3 names over three cached files in two directories x {name filtered in the tag inside for, assigned inside for, inside tablerow, one parsed template rendered once per name}, absolute expectation); oracle = reference inliner (textual substitution of resolved content) rendered by the engine itself, or a SourceError with os.IsNotExist cause; class = (graph, argument form, outcome kind)",
		Assumptions: []string{
			"nested includes are only generated between files of the main template's own directory, where 'relative to the includer' and 'relative to the main template' coincide (the statement does not separate them)",
			"cache entries are registered under the cleaned joined path",
			"include cycles are outside the property's quantifier (acyclic graphs)",
		},
		Setup: func(string) {
			c14.root = filepath.Join(explore.VerifDir, ".work", fmt.Sprintf("c14.%d", os.Getpid()))
			os.MkdirAll(c14.root, 0o755)
		},
		Teardown: func() { os.RemoveAll(c14.root) },
		Families: c14Families,
		Bound:    func(string) string { return "64 file configurations x 6 graphs x 8 argument forms x 4 bodies" },
	})
}
