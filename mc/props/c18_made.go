package props

import (
	"fmt"
	"strings"

	"github.com/osteele/liquid"
	"verifmc/explore"
	"verifmc/univ"
)

// C18, values that take their representation INSIDE the render: results of application filters declared with typed
// results (typed maps and slices - also their nil values -, fixed arrays, numbers of every width, named strings,
// Drops, pointers). Filters producing the same logical value must be interchangeable in every position, on a default
// and on a strict-variables engine.

type c18Maker struct {
	name string
	fn   any
}

var c18MadeClasses = []struct {
	name   string
	makers []c18Maker
}{
	{"empty map", []c18Maker{{"mk_emap_any", func(any) map[string]any { return map[string]any{} }}, {"mk_emap_typed_nil", func(any) map[string]int { return nil }}, {"mk_emap_typed", func(any) map[string]int { return map[string]int{} }},
		{"mk_emap_any_nil", func(any) map[string]any { return nil }}, {"mk_emap_iface", func(any) any { return map[string]string(nil) }}}},
	{"map a:1", []c18Maker{{"mk_m1_any", func(any) map[string]any { return map[string]any{"a": 1} }}, {"mk_m1_typed", func(any) map[string]int { return map[string]int{"a": 1} }}, {"mk_m1_drop", func(any) any { return univ.Drop{V: map[string]any{"a": 1}} }},
		{"mk_m1_i8", func(any) map[string]int8 { return map[string]int8{"a": 1} }}}},
	{"list 1,2", []c18Maker{{"mk_l_any", func(any) []any { return []any{1, 2} }}, {"mk_l_ints", func(any) []int { return []int{1, 2} }}, {"mk_l_arr", func(any) [2]int { return [2]int{1, 2} }}, {"mk_l_u8", func(any) []uint16 { return []uint16{1, 2} }},
		{"mk_l_pdrop", func(any) any { return &univ.PDrop{V: []any{1, 2}} }}}},
	{"empty list", []c18Maker{{"mk_el_any", func(any) []any { return []any{} }}, {"mk_el_ints_nil", func(any) []int { return nil }}, {"mk_el_strs", func(any) []string { return []string{} }}, {"mk_el_any_nil", func(any) []any { return nil }}}},
	{"number 3", []c18Maker{{"mk_3_int", func(any) int { return 3 }}, {"mk_3_i32", func(any) int32 { return 3 }}, {"mk_3_u8", func(any) uint8 { return 3 }}, {"mk_3_u64", func(any) uint64 { return 3 }}, {"mk_3_drop", func(any) any { return univ.Drop{V: 3} }}}},
	{"string ab", []c18Maker{{"mk_s_str", func(any) string { return "ab" }}, {"mk_s_named", func(any) univ.NamedString { return "ab" }}, {"mk_s_drop", func(any) any { return univ.Drop{V: "ab"} }}, {"mk_s_err", func(any) (string, error) { return "ab", nil }}}},
	{"nil", []c18Maker{{"mk_n_any", func(any) any { return nil }}, {"mk_n_ptr", func(any) *int { return nil }}, {"mk_n_drop", func(any) any { return univ.Drop{V: nil} }}}},
}

var c18MadeTemplates = []string{
	"{% assign a = 0 | MK %}{{ a }}|{{ a.size }}|{% if a %}T{% else %}F{% endif %}|{{ a | size }}|{% for x in a %}{{ x }},{% else %}E{% endfor %}|{{ a.a }}|{{ a[0] }}",
	"{{ 0 | MK }}|{{ 0 | MK | size }}|{% if 0 | MK %}T{% else %}F{% endif %}|{{ 0 | MK | default: 'dflt' }}|{{ 0 | MK | join: '-' }}",
	"{% assign a = 0 | MK %}{% assign b = 0 | MK0 %}{% if a == b %}E{% else %}N{% endif %}{% if b == a %}E{% else %}N{% endif %}{% unless a %}U{% endunless %}{% case a %}{% when b %}W{% else %}O{% endcase %}",
	"{% assign a = 0 | MK %}{{ a | plus: 1 }}|{{ a | append: '!' }}|{{ a | first }}|{{ a | sort | join }}|{% if a contains 'a' %}C{% endif %}|{% if a contains 1 %}D{% endif %}",
}

func c18MadeFamily() explore.Family {
	mkEngine := func(strict bool) *liquid.Engine {
		e := liquid.NewEngine()
		if strict {
			e.StrictVariables()
		}
		for _, c := range c18MadeClasses {
			for _, m := range c.makers {
				e.RegisterFilter(m.name, m.fn)
			}
		}
		return e
	}
	var engs [2]*liquid.Engine
	type job struct{ c, m, t, s int }
	var jobs []job
	for ci, c := range c18MadeClasses {
		for mi := 1; mi < len(c.makers); mi++ {
			for ti := range c18MadeTemplates {
				for s := 0; s < 2; s++ {
					jobs = append(jobs, job{ci, mi, ti, s})
				}
			}
		}
	}
	return explore.Family{Name: "values-made-by-application-filters", Count: int64(len(jobs)), Run: func(i int64, r *explore.Rec) {
		jb := jobs[i]
		if engs[jb.s] == nil {
			engs[jb.s] = mkEngine(jb.s == 1)
		}
		c := c18MadeClasses[jb.c]
		spell := func(mk string) string {
			return strings.ReplaceAll(strings.ReplaceAll(c18MadeTemplates[jb.t], "MK0", c.makers[0].name), "MK", mk)
		}
		r.Eval()
		r.Eval()
		r.Transition()
		r.Trace()
		b0 := Render(engs[jb.s], spell(c.makers[0].name), map[string]any{})
		o := Render(engs[jb.s], spell(c.makers[jb.m].name), map[string]any{})
		r.Class("made/" + c.name)
		// (error messages name Go types and the filter: failures are compared as failures, outputs byte for byte)
		same := o.Panic == nil && b0.Panic == nil && (o.Err != nil) == (b0.Err != nil) && (o.Err != nil || o.Out == b0.Out)
		if !same {
			r.Violation("representation:made-by-application-filter:"+c.name, map[string]any{"template": c18MadeTemplates[jb.t], "MK": c.makers[jb.m].name + fmt.Sprintf(" (%T)", c.makers[jb.m].fn), "MK0": c.makers[0].name + fmt.Sprintf(" (%T)", c.makers[0].fn), "strict_variables": jb.s == 1}, b0.String(), o.String())
		}
	}}
}

