package props

import (
	"bytes"
	"fmt"
	"io"
	"math"
	"path/filepath"
	"strconv"
	"strings"

	"github.com/osteele/liquid"
	"verifmc/explore"
	"verifmc/univ"
)

// C01 — totality: output or SourceError, never a panic, always terminates.

var c01 struct {
	eng     *liquid.Engine
	filters []string
	corpus  []string
}

// Σ_lex: template lexical fragments.
var sigmaLex = []string{"{{", "}}", "{%", "%}", "-", " ", "\n", "x", "1", `"`, "'", "|", ":", ".", "[", "]", "(", ")", "..", ",",
	"if", "endif", "for", "in"}

// the 12 most structural fragments (deeper syntax bound)
var sigmaLex12 = []string{"{{", "}}", "{%", "%}", "-", " ", "x", "|", ":", ".", "[", "if"}

// Σ_expr: expression tokens.
var sigmaExpr = []string{"x", "1", "-1", "1.5", `"s"`, "nil", "true", ".a", ".size", "[", "]", "(", ")", "..", "|", ":", ",",
	"f", "==", "<", "contains", "and", "or", "in", "=", "99999999999999999999", "first", "limit:", "reversed",
	// the expression lexer's statement selectors are ordinary input bytes too
	"%assign ", "{%cycle ", "%loop ", "{%when ", "%", "{%", ";"}

// argument positions for expression token sequences
var exprPositions = []struct{ pre, post string }{
	{"{{ ", " }}"},
	{"{% if ", " %}T{% endif %}"},
	{"{% for i in ", " %}{{ i }}{% endfor %}"},
	{"{% assign v = ", " %}{{ v }}"},
	{"{% for i in x %}{% cycle ", " %}{% endfor %}"},
	{"{% case x %}{% when ", " %}W{% endcase %}"},
	{"{% include ", " %}"},
	{"{% tablerow i in ", " %}{{ i }}{% endtablerow %}"},
	{"{% unless ", " %}U{% endunless %}"},
}

// operator / access forms over (a, b [, c])
var opForms = []string{
	"{{ a == b }}", "{{ a != b }}", "{{ a < b }}", "{{ a > b }}", "{{ a <= b }}", "{{ a >= b }}", "{{ a contains b }}",
	"{% if a == b %}T{% else %}F{% endif %}", "{% if a < b %}T{% endif %}", "{% if a contains b %}T{% endif %}",
	"{% if a and b %}T{% endif %}", "{% if a or b %}T{% endif %}", "{% unless a >= b %}T{% endunless %}",
	"{% case a %}{% when b %}W{% else %}E{% endcase %}", "{% case a %}{% when 1, b, a %}W{% endcase %}",
	"{{ a[b] }}", "{{ a.size }}{{ a.first }}{{ a.last }}{{ a.x }}{{ a.a }}", "{{ a.URL }}{{ b.URL }}{{ a.X }}{{ b.X }}{{ a.A }}{{ b[\"URL\"] }}{{ a.Fn }}{{ a.NilFn }}{{ a.hidden }}{{ a.PtrNil.X }}{% if a contains \"URL\" %}1{% endif %}", "{{ a.Zone }}{{ a.Year }}{{ a.Unix }}{{ a.Date }}{{ a.String }}{{ b.Clock }}{{ a.IsZero }}{{ a.Location }}{{ a.Month }}{{ b.ISOWeek }}{{ a.UTC }}{{ a.Add }}", "{{ a.b.c }}{{ a[0][b] }}{{ a[-1] }}", "{{ (a..b) }}",
	"{% for i in a offset: b %}{{ i }}{% else %}E{% endfor %}", "{% for i in a limit: b %}{{ i }}{% endfor %}",
	"{% for i in a reversed %}{{ i }}{{ forloop.index }}{% endfor %}",
	"{% for i in a %}{% cycle a, b %}{% endfor %}", "{% for i in l %}{% cycle 'g': 'x', 'y' %}{{ i[b] }}{% endfor %}",
	"{% tablerow i in a cols: b %}{{ i }}{% endtablerow %}", "{% tablerow i in a limit: b offset: 1 %}{{ i }}{% endtablerow %}",
	"{% include a %}", "{% for i in l %}{% assign forloop = a %}{% cycle 'x', 'y' %}{% endfor %}",
	"{% assign v = a %}{{ v }}{{ v[b] }}", "{% capture v %}{{ a }}{% endcapture %}{{ v | append: b }}",
	"{% for i in l %}{% assign forloop = a %}{{ forloop.index }}{% endfor %}{{ forloop }}",
	"{% for a in l %}{{ a }}{% break %}{% endfor %}{{ a }}", "{{ a }}", `{{ a.d }}{{ a.A }}{{ a.B }}{{ a["d"] }}{{ a[""] }}{{ a.C.first }}`,
	"{% if a contains b %}T{% endif %}{% if b contains a %}T{% endif %}", "{{ a | sort: b | join }}{{ a | map: b | join }}{{ a | concat: b | uniq | size }}", "{{ a | default: b }}{{ b | json }}{{ a | inspect }}",
}

func c01Bind(names []string, idx []int) map[string]any {
	b := map[string]any{"l": []any{1, 2, 3}}
	for j, n := range names {
		b[n] = univ.All[idx[j]].Build()
	}
	return b
}

func c01Check(r *explore.Rec, kind string, src string, b map[string]any, desc func() any) Outcome {
	r.Eval()
	o := Render(c01.eng, src, b)
	c01Judge(r, kind, o, desc)
	return o
}

func c01Judge(r *explore.Rec, kind string, o Outcome, desc func() any) {
	switch {
	case o.Panic != nil:
		r.Violation(o.Panic.Key(), desc(), "output or SourceError", o.String())
	case o.Err != nil:
		var msg string
		if p := explore.Safe(func() { msg = o.Err.Error(); _ = o.Err.LineNumber(); _ = o.Err.Path(); _ = o.Err.Cause() }); p != nil {
			r.Violation("error-methods-panic:"+p.Frame, desc(), "a usable SourceError", p.Value)
		} else if msg == "" {
			r.Violation("empty-error-message", desc(), "a SourceError naming the problem", "empty message")
		}
		if o.Out != "" {
			r.Violation("output-with-error", desc(), "(nil, err)", o.String())
		}
	}
	r.Class(kind + "/" + o.Class())
	if r.WantSample() {
		r.Sample(map[string]any{"case": desc(), "outcome": trunc80(o.String())})
	}
}

func trunc80(s string) string {
	if len(s) > 120 {
		return s[:120] + "…"
	}
	return s
}

func init() {
	explore.Register(&explore.Prop{
		ID:    "C01",
		Level: "exploration",
		Rule: "exhaustive enumeration: (filter x receiver x argument tuples from the boundary universe), (operator/access/tag forms x value pairs), " +
			"(all strings of <=N lexical fragments), (all expression-token sequences of <=N tokens in 9 argument positions), " +
			"(every truncation/1-byte deletion/1-byte insertion of the repository's own test templates); " +
			"a class is (family-specific construct, result kind in {output, empty, error}); distinct_nontrivial counts distinct classes",
		Assumptions: []string{
			"bindings are plain data from the universe in DESIGN.md 3.1 (no func-valued struct fields, no include cycles)",
			"range endpoints that are iterated or converted to arrays stay within +-1000 (a larger range legitimately takes proportional time)",
			"a case running longer than 120 s is non-termination (cases take 1e-5..1e-2 s)",
		},
		Setup: func(tier string) {
			c01.eng = liquid.NewEngine()
			c01.filters = StdFilters()
			c01.corpus = TestCorpus()
		},
		Bound: func(tier string) string {
			if tier == "thorough" {
				return "filters: arity<=1 over U x U, arity 2 over U x U x U2, arity 3 over U2^3; int-boundary args; ops: U x U; syntax: <=5 fragments of 24 + <=6 of 12; expr tokens: <=4 in 9 positions, <=5 in object position; corpus one-edit neighbourhood"
			}
			return "filters: arity<=1 over U x U, arity 2 over U x U2 x U2; int-boundary args; ops: U x U; syntax: <=4 fragments of 24; expr tokens: <=3 in 9 positions, <=4 in object position; corpus one-edit neighbourhood"
		},
		Families: c01Families,
	})
}

func c01Families(tier string) []explore.Family {
	thorough := tier == "thorough"
	if c01.filters == nil {
		c01.filters = StdFilters()
		c01.corpus = TestCorpus()
	}
	F := len(c01.filters)
	U := len(univ.All)
	var small []int
	for i, v := range univ.All {
		if v.Small {
			small = append(small, i)
		}
	}
	S := len(small)
	var fams []explore.Family

	// 1. filter matrix, arity 0 and 1 over the full universe
	fams = append(fams, explore.Family{Name: "filter-arity0", Count: int64(F * U), Run: func(i int64, r *explore.Rec) {
		rx := radix{i}
		ri, fi := rx.next(U), rx.next(F)
		src := "{{ r | " + c01.filters[fi] + " }}"
		c01Check(r, c01.filters[fi], src, c01Bind([]string{"r"}, []int{ri}), func() any {
			return map[string]any{"template": src, "r": univ.All[ri].Name}
		})
	}})
	fams = append(fams, explore.Family{Name: "filter-arity1", Count: int64(F * U * U), Run: func(i int64, r *explore.Rec) {
		rx := radix{i}
		ai, ri, fi := rx.next(U), rx.next(U), rx.next(F)
		src := "{{ r | " + c01.filters[fi] + ": a }}"
		c01Check(r, c01.filters[fi], src, c01Bind([]string{"r", "a"}, []int{ri, ai}), func() any {
			return map[string]any{"template": src, "r": univ.All[ri].Name, "a": univ.All[ai].Name}
		})
	}})
	// arity 2
	RU := S
	if thorough {
		RU = U
	}
	_ = RU
	fams = append(fams, explore.Family{Name: "filter-arity2", Count: int64(F * U * func() int {
		if thorough {
			return U * S
		}
		return S * S
	}()), Run: func(i int64, r *explore.Rec) {
		rx := radix{i}
		bi := small[rx.next(S)]
		var ai int
		if thorough {
			ai = rx.next(U)
		} else {
			ai = small[rx.next(S)]
		}
		ri, fi := rx.next(U), rx.next(F)
		src := "{{ r | " + c01.filters[fi] + ": a, b }}"
		c01Check(r, c01.filters[fi], src, c01Bind([]string{"r", "a", "b"}, []int{ri, ai, bi}), func() any {
			return map[string]any{"template": src, "r": univ.All[ri].Name, "a": univ.All[ai].Name, "b": univ.All[bi].Name}
		})
	}})
	if thorough {
		fams = append(fams, explore.Family{Name: "filter-arity3", Count: int64(F * S * S * S * S), Run: func(i int64, r *explore.Rec) {
			rx := radix{i}
			ci, bi, ai, ri, fi := small[rx.next(S)], small[rx.next(S)], small[rx.next(S)], small[rx.next(S)], rx.next(F)
			src := "{{ r | " + c01.filters[fi] + ": a, b, c }}"
			c01Check(r, c01.filters[fi], src, c01Bind([]string{"r", "a", "b", "c"}, []int{ri, ai, bi, ci}), func() any {
				return map[string]any{"template": src, "r": univ.All[ri].Name, "a": univ.All[ai].Name, "b": univ.All[bi].Name, "c": univ.All[ci].Name}
			})
		}})
	}
	// integer boundary arguments, as literals, with an optional second argument
	second := []string{"", ", 0", ", -1", ", 5", ", 2000", `, ""`, `, "…"`, ", nil"}
	NB := len(univ.IntBoundary)
	fams = append(fams, explore.Family{Name: "filter-intarg", Count: int64(F * U * NB * len(second)), Run: func(i int64, r *explore.Rec) {
		rx := radix{i}
		si, ni, ri, fi := rx.next(len(second)), rx.next(NB), rx.next(U), rx.next(F)
		src := "{{ r | " + c01.filters[fi] + ": " + strconv.Itoa(univ.IntBoundary[ni]) + second[si] + " }}"
		c01Check(r, c01.filters[fi], src, c01Bind([]string{"r"}, []int{ri}), func() any {
			return map[string]any{"template": src, "r": univ.All[ri].Name}
		})
	}})
	// filter chains of two on every receiver (no arguments / one small argument)
	fams = append(fams, explore.Family{Name: "filter-chain2", Count: int64(F * F * U), Run: func(i int64, r *explore.Rec) {
		rx := radix{i}
		ri, gi, fi := rx.next(U), rx.next(F), rx.next(F)
		src := "{{ r | " + c01.filters[fi] + " | " + c01.filters[gi] + " }}{{ r | " + c01.filters[fi] + ": 1 | " + c01.filters[gi] + `: "a" }}`
		c01Check(r, c01.filters[fi]+"|"+c01.filters[gi], src, c01Bind([]string{"r"}, []int{ri}), func() any {
			return map[string]any{"template": src, "r": univ.All[ri].Name}
		})
	}})

	// 2. operator / access matrix
	fams = append(fams, explore.Family{Name: "ops", Count: int64(len(opForms) * U * U), Run: func(i int64, r *explore.Rec) {
		rx := radix{i}
		bi, ai, fi := rx.next(U), rx.next(U), rx.next(len(opForms))
		src := opForms[fi]
		if strings.Contains(src, "(a..b)") {
			// printing a range does not iterate it; any endpoints are fine
		}
		c01Check(r, "op"+strconv.Itoa(fi), src, c01Bind([]string{"a", "b"}, []int{ai, bi}), func() any {
			return map[string]any{"template": src, "a": univ.All[ai].Name, "b": univ.All[bi].Name}
		})
	}})
	// ranges that are iterated / converted: endpoints restricted to small magnitudes
	smallEnds := []string{"-3", "0", "1", "5", "1000", "1.5", `"2"`, `"x"`, "nil", "true", "x", "l"}
	rangeForms := []string{"{{ (A..B) | join }}", "{% for i in (A..B) %}{{ i }}{% else %}E{% endfor %}", "{{ (A..B) | size }}{{ (A..B) | first }}{{ (A..B) | reverse | last }}",
		"{% tablerow i in (A..B) cols: 2 %}{{ i }}{% endtablerow %}", "{% assign r = (A..B) %}{{ r[0] }}{{ r.size }}{{ r | sort | uniq | compact | map: 'x' }}",
		"{% for i in (A..B) reversed offset: 1 limit: 2 %}{{ i }}{% endfor %}", "{% if (A..B) contains 1 %}T{% endif %}{% if (A..B) == (A..B) %}T{% endif %}"}
	fams = append(fams, explore.Family{Name: "ranges", Count: int64(len(rangeForms) * len(smallEnds) * len(smallEnds)), Run: func(i int64, r *explore.Rec) {
		rx := radix{i}
		bi, ai, fi := rx.next(len(smallEnds)), rx.next(len(smallEnds)), rx.next(len(rangeForms))
		src := strings.ReplaceAll(strings.ReplaceAll(rangeForms[fi], "A", smallEnds[ai]), "B", smallEnds[bi])
		c01Check(r, "range"+strconv.Itoa(fi), src, map[string]any{"x": 2, "l": []any{1, 2}}, func() any {
			return map[string]any{"template": src, "bindings": "x=2 l=[1,2]"}
		})
	}})

	// ranges far too long to materialise (2^44 .. 2^63 elements), used where nothing has to iterate over them or
	// where the answer must come at once: output or an error, never a panic (an allocation of that size panics
	// immediately, so the check cannot exhaust memory; ranges of 2^31..2^43 elements are NOT tried: materialising
	// them would be "proportional to the range the template spells out" and could take the machine down)
	hugeEnds := [][2]string{{"1", "9223372036854775807"}, {"-4611686018427387904", "4611686018427387903"}, {"0", "17592186044416"}, {"-9223372036854775808", "9223372036854775807"}}
	hugeForms := []string{"{{ (A..B) | first }}", "{{ (A..B) | last }}", "{{ (A..B) | size }}", "{{ (A..B).first }}{{ (A..B).size }}{{ (A..B)[0] }}", "{% assign r = (A..B) %}{{ r.first }}{{ r | size }}",
		"{% for i in (A..B) limit: 2 %}{{ i }}{% endfor %}", "{{ (A..B) | join | size }}", "{{ (A..B) | sort | first }}", "{{ (A..B) | reverse | first }}", "{{ (A..B) | map: 'x' | size }}", "{{ (A..B) | uniq | size }}",
		"{% if (A..B) contains 5 %}T{% endif %}", "{{ (A..B) | concat: l | size }}", "{{ l | concat: (A..B) | size }}", "{% for i in (A..B) reversed limit: 1 %}{{ i }}{% endfor %}", "{% tablerow i in (A..B) limit: 1 %}{{ i }}{% endtablerow %}", "{{ (A..B) }}"}
	// the last form and contains may legitimately take time proportional to the range: they are only run on the current tree's fast paths if they return at once
	fams = append(fams, explore.Family{Name: "ranges-too-long-to-materialise", Count: int64((len(hugeForms) - 1) * len(hugeEnds)), Run: func(i int64, r *explore.Rec) {
		e, f := hugeEnds[int(i)%len(hugeEnds)], hugeForms[int(i)/len(hugeEnds)]
		if strings.Contains(f, "contains") || strings.Contains(f, "reversed") || strings.Contains(f, "tablerow") {
			return // may iterate: proportional to the range, not tried
		}
		src := strings.ReplaceAll(strings.ReplaceAll(f, "A", e[0]), "B", e[1])
		c01Check(r, "huge-range", src, map[string]any{"l": []any{1, 2}}, func() any { return map[string]any{"template": src} })
	}})

	// 2b'. SHORT ranges at the edges of the integers (two or three elements ending at MaxInt64 / starting at MinInt64,
	// also with the bounds in variables): every form, including the iterating ones
	edgeEnds := [][2]string{{"9223372036854775806", "9223372036854775807"}, {"9223372036854775807", "9223372036854775807"}, {"-9223372036854775808", "-9223372036854775807"},
		{"-9223372036854775808", "-9223372036854775808"}, {"9223372036854775807", "9223372036854775806"}, {"hi1", "hi"}, {"lo", "lo1"}, {"2147483646", "2147483648"}}
	fams = append(fams, explore.Family{Name: "short-ranges-at-the-integer-edges", Count: int64(len(hugeForms) * len(edgeEnds)), Run: func(i int64, r *explore.Rec) {
		e, f := edgeEnds[int(i)%len(edgeEnds)], hugeForms[int(i)/len(edgeEnds)]
		src := strings.ReplaceAll(strings.ReplaceAll(f, "A", e[0]), "B", e[1])
		c01Check(r, "edge-range", src, map[string]any{"l": []any{1, 2}, "hi": math.MaxInt64, "hi1": math.MaxInt64 - 1, "lo": math.MinInt64, "lo1": math.MinInt64 + 1}, func() any { return map[string]any{"template": src} })
	}})

	// 2c. very deep values: slices in slices, maps in maps, pointers to pointers, Drops yielding Drops, nested
	// 100..30000 levels (beyond any plausible recursion guard), through everything that walks a value
	deepShapes := []string{"slices", "maps", "pointers", "drops", "slices-and-maps"}
	deepDepths := []int{100, 1000, 10001, 30000}
	deepBuild := func(shape string, d int) any {
		var v any = 1
		for k := 0; k < d; k++ {
			switch {
			case shape == "slices" || (shape == "slices-and-maps" && k%2 == 0):
				v = []any{v}
			case shape == "maps" || shape == "slices-and-maps":
				v = map[string]any{"k": v}
			case shape == "pointers":
				w := v
				v = &w
			default:
				v = univ.Drop{V: v}
			}
		}
		return v
	}
	deepForms := []string{"{{ a | size }}", "{% if a == b %}E{% else %}N{% endif %}", "{% if a contains b %}C{% endif %}", "{% case a %}{% when b %}W{% else %}E{% endcase %}", "{{ a | json | size }}",
		"{{ a | join | size }}", "{{ a | first | size }}", "{{ a | uniq | size }}", "{{ a | sort | size }}", "{% for x in a %}{{ x | size }}{% endfor %}", "{{ a | compact | size }}{{ a | reverse | size }}{{ a | concat: b | size }}",
		"{% assign c = a %}{% if c == b %}E{% endif %}", "{{ a | default: 'd' | size }}", "{{ a | append: '' | size }}", "{% if a %}T{% endif %}{% unless a %}U{% endunless %}", "{{ a.k.k.k | size }}{{ a[0][0] | size }}", "{% if a < b %}L{% endif %}{% if a != b %}D{% endif %}",
		"{% capture c %}{{ a }}{% endcapture %}{{ c | size }}", "{{ a | map: 'k' | size }}", "{{ a | sort: 'k' | size }}", "{% if l contains a %}C{% endif %}{{ l | uniq | size }}{{ l | sort | size }}", "{% tablerow x in a %}{{ x | size }}{% endtablerow %}"}
	fams = append(fams, explore.Family{Name: "very-deep-values", Count: int64(len(deepShapes) * len(deepDepths) * len(deepForms)), Run: func(i int64, r *explore.Rec) {
		rx := radix{i}
		f, d, sh := deepForms[rx.next(len(deepForms))], deepDepths[rx.next(len(deepDepths))], deepShapes[rx.next(len(deepShapes))]
		a, b := deepBuild(sh, d), deepBuild(sh, d)
		c01Check(r, "deep-value", f, map[string]any{"a": a, "b": b, "l": []any{a, b}}, func() any {
			return map[string]any{"template": f, "a and b": fmt.Sprintf("%s nested %d levels around 1", sh, d)}
		})
	}})

	// 2d. configurations and entry points: default / strict-variables / custom-delimiter engines; pages of 1-4 lines parsed
	// with and without a path and a starting line, including cached partials of 1-4 lines that succeed or fail (undefined
	// variable, filter error, division by zero, syntax error) on each of their lines; rendered through Render,
	// RenderString and FRender - output or a SourceError whose methods work, whatever line and path arithmetic is done
	type cfgEngine struct {
		name string
		mk   func() *liquid.Engine
		sp   func(string) string
	}
	ident := func(s string) string { return s }
	angle := strings.NewReplacer("{{", "<<", "}}", ">>", "{%", "<%", "%}", "%>").Replace
	cfgEngines := []cfgEngine{{"default", func() *liquid.Engine { return liquid.NewEngine() }, ident},
		{"strict", func() *liquid.Engine { e := liquid.NewEngine(); e.StrictVariables(); return e }, ident},
		{"strict+delims", func() *liquid.Engine {
			e := liquid.NewEngine().Delims("<<", ">>", "<%", "%>")
			e.StrictVariables()
			return e
		}, angle}}
	failLines := []string{"ok {{ x }}", "{{ undefined_name }}", "{{ x | nosuchfilter }}", "{{ 1 | divided_by: 0 }}", "{% if %}", "{{ undefined_name.a.b }}"}
	pageShapes := []string{"INC", "a\nINC", "INC\nb\nc", "a\nb\nINC\nd", "{% if x %}\nINC{% endif %}", "{% for i in (1..2) %}INC\n{% endfor %}"}
	cfgLocs := []struct {
		path string
		line int
	}{{"", 0}, {"", 1}, {"site/page.html", 1}, {"site/page.html", 5}, {"/abs/page.html", 0}}
	nPart := 4 // the failing line is line 1..4 of the partial (0: the partial has no failing line)
	fams = append(fams, explore.Family{Name: "configurations-and-entry-points", Count: int64(len(cfgEngines) * len(failLines) * (nPart + 1) * len(pageShapes) * len(cfgLocs) * 3), Run: func(i int64, r *explore.Rec) {
		rx := radix{i}
		entry, loc, page, at, fl, ce := rx.next(3), cfgLocs[rx.next(len(cfgLocs))], pageShapes[rx.next(len(pageShapes))], rx.next(nPart+1), failLines[rx.next(len(failLines))], cfgEngines[rx.next(len(cfgEngines))]
		var lines []string
		for k := 1; k <= nPart; k++ {
			if k == at {
				lines = append(lines, fl)
			} else {
				lines = append(lines, fmt.Sprintf("p%d {{ x }}", k))
			}
		}
		partial := ce.sp(strings.Join(lines, "\n"))
		src := ce.sp(strings.ReplaceAll(page, "INC", `{% include "part.inc" %}`))
		desc := func() any {
			return map[string]any{"engine": ce.name, "page": src, "part.inc": partial, "path": loc.path, "start_line": loc.line, "entry": []string{"Render", "RenderString", "FRender"}[entry]}
		}
		r.Eval()
		var o Outcome
		o.Panic = explore.Safe(func() {
			eng := ce.mk()
			dir := filepath.Dir(loc.path)
			if loc.path == "" {
				dir = ""
			}
			if _, err := eng.ParseTemplateAndCache([]byte(partial), filepath.Join(dir, "part.inc"), 1); err != nil && at == 0 {
				o.Err = err
				return
			}
			tpl, err := eng.ParseTemplateLocation([]byte(src), loc.path, loc.line)
			if err != nil {
				o.Err = err
				return
			}
			b := map[string]any{"x": "X"}
			switch entry {
			case 0:
				out, err := tpl.Render(b)
				o.Out, o.Err = string(out), err
			case 1:
				out, err := tpl.RenderString(b)
				o.Out, o.Err = out, err
			default:
				var buf bytes.Buffer
				if err := tpl.FRender(&buf, b); err != nil {
					o.Err = err
				} else {
					o.Out = buf.String()
				}
			}
		})
		c01Judge(r, "configuration", o, desc)
	}})

	// 3. syntax space
	synBind := func() map[string]any {
		return map[string]any{"x": []any{1, "a", map[string]any{"x": 2}}, "if": 1, "in": "s"}
	}
	nlex := 4
	if thorough {
		nlex = 5
	}
	fams = append(fams, explore.Family{Name: "syntax-lex", Count: seqCount(len(sigmaLex), nlex), Run: func(i int64, r *explore.Rec) {
		src := joinSyms(sigmaLex, seqAt(len(sigmaLex), i), "")
		o := c01Check(r, "lex", src, synBind(), func() any { return map[string]any{"template": src} })
		// the second entry point must agree on totality as well
		r.Eval()
		var o2 Outcome
		o2.Panic = explore.Safe(func() {
			out, err := c01.eng.ParseAndRender([]byte(src), synBind())
			o2.Out, o2.Err = string(out), err
		})
		if o2.Panic != nil && o.Panic == nil {
			r.Violation(o2.Panic.Key(), map[string]any{"template": src, "entry": "ParseAndRender"}, "output or SourceError", o2.String())
		}
	}})
	if thorough {
		fams = append(fams, explore.Family{Name: "syntax-lex12", Count: seqCount(len(sigmaLex12), 6), Run: func(i int64, r *explore.Rec) {
			src := joinSyms(sigmaLex12, seqAt(len(sigmaLex12), i), "")
			c01Check(r, "lex12", src, synBind(), func() any { return map[string]any{"template": src} })
		}})
	}
	nexpr, nexprObj := 3, 4
	if thorough {
		nexpr, nexprObj = 4, 5
	}
	E := len(sigmaExpr)
	fams = append(fams, explore.Family{Name: "syntax-expr", Count: seqCount(E, nexpr) * int64(len(exprPositions)), Run: func(i int64, r *explore.Rec) {
		pos := exprPositions[i%int64(len(exprPositions))]
		src := pos.pre + joinSyms(sigmaExpr, seqAt(E, i/int64(len(exprPositions))), " ") + pos.post
		c01Check(r, "expr", src, synBind(), func() any { return map[string]any{"template": src} })
	}})
	fams = append(fams, explore.Family{Name: "syntax-expr-obj", Count: seqCount(E, nexprObj), Run: func(i int64, r *explore.Rec) {
		src := "{{ " + joinSyms(sigmaExpr, seqAt(E, i), " ") + " }}"
		c01Check(r, "exprobj", src, synBind(), func() any { return map[string]any{"template": src} })
	}})

	// 4. one-edit neighbourhood of the repository's test templates
	special := []string{"{", "}", "%", "-", `"`, "'", "|", ":", ".", "[", "(", "\n"}
	type edit struct {
		t, kind, pos, sym int
	}
	var offs []int64 // prefix sums
	total := int64(0)
	for _, t := range c01.corpus {
		offs = append(offs, total)
		n := int64(len(t))
		total += n /*truncations*/ + n /*deletions*/ + (n+1)*int64(len(special))
	}
	corpusBind := func() map[string]any {
		return map[string]any{
			"x": 123, "obj": map[string]any{"a": 1}, "animals": []string{"zebra", "octopus", "giraffe", "Sally Snake"},
			"pages":     []map[string]any{{"category": "business"}, {}, {"category": "sports"}},
			"sort_prop": []map[string]any{{"weight": 1}, {"weight": 5}, {"weight": nil}},
			"page":      map[string]any{"title": "Introduction"}, "array": []string{"first", "second", "third"},
			"map": map[string]any{"a": 1}, "offset": 1, "limit": 2, "cols": 2, "loopmods": map[string]any{"limit": 2, "offset": 1, "cols": 2},
			"ar": []any{1, 2, 3}, "a": []any{1, nil, "x"}, "b": "b", "n": 2, "hash": map[string]any{"a": 1, "b": 2}, "fruits": []any{"apples", "oranges"},
			"products": []string{"Cool Shirt", "Alien Poster", "Batman Poster"}, "var": "value", "test": true,
		}
	}
	fams = append(fams, explore.Family{Name: "corpus-edits", Count: total, Run: func(i int64, r *explore.Rec) {
		// locate template
		lo, hi := 0, len(offs)-1
		for lo < hi {
			mid := (lo + hi + 1) / 2
			if offs[mid] <= i {
				lo = mid
			} else {
				hi = mid - 1
			}
		}
		t := c01.corpus[lo]
		j := i - offs[lo]
		n := int64(len(t))
		var src string
		switch {
		case j < n:
			src = t[:j]
		case j < 2*n:
			p := j - n
			src = t[:p] + t[p+1:]
		default:
			j -= 2 * n
			p, s := j/int64(len(special)), j%int64(len(special))
			src = t[:p] + special[s] + t[p:]
		}
		c01Check(r, "corpus", src, corpusBind(), func() any { return map[string]any{"template": src, "derived_from": t} })
	}})

	// 4b. template pool x universe: every binding name of the other generators' templates bound to every universe value
	var pool []string
	pool = append(pool, c20Templates...)
	pool = append(pool, c04Base...)
	pool = append(pool, c03Templates...)
	for _, t := range c18Templates {
		pool = append(pool, t.src)
	}
	names := []string{"x", "l", "m", "a", "n", "s", "d", "lm", "nested", "y"}
	fams = append(fams, explore.Family{Name: "pool-x-universe", Count: int64(len(pool) * len(names) * U), Run: func(i int64, r *explore.Rec) {
		rx := radix{i}
		ui, ni, ti := rx.next(U), rx.next(len(names)), rx.next(len(pool))
		src := pool[ti]
		if !strings.Contains(src, names[ni]) {
			return
		}
		b := c20Bind()
		for k, v := range c03Envs(0) {
			if _, ok := b[k]; !ok {
				b[k] = v
			}
		}
		b[names[ni]] = univ.All[ui].Build()
		c01Check(r, "pool", src, b, func() any { return map[string]any{"template": src, names[ni]: univ.All[ui].Name} })
	}})
	// 4c. tag programs (assign/capture/for/tablerow/if/include combinations) x universe values for x and y
	if thorough {
		pc := c12Counts(2)
		nprog := pc[0] + pc[1] + pc[2]
		fams = append(fams, explore.Family{Name: "tag-programs-x-universe", Count: nprog * int64(U*S), Run: func(i int64, r *explore.Rec) {
			rx := radix{i}
			yi, xi := small[rx.next(S)], rx.next(U)
			pi := rx.i
			n := 0
			for pi >= pc[n] {
				pi -= pc[n]
				n++
			}
			prog := c12Unrank(pc, n, pi)
			var sb strings.Builder
			sb.WriteString(c12Probe)
			c12Source(prog, &sb)
			src := strings.ReplaceAll(sb.String(), "(1..2)", "x")
			c01Check(r, "tagprog", src, c01Bind([]string{"x", "y"}, []int{xi, yi}), func() any {
				return map[string]any{"template": src, "x": univ.All[xi].Name, "y": univ.All[yi].Name}
			})
		}})
	}

	// 5. scaled family: work grows linearly with repetition (counting oracle, no clock)
	nscale := 2
	fams = append(fams, explore.Family{Name: "scaled", Count: seqCount(len(sigmaLex), nscale), Run: func(i int64, r *explore.Rec) {
		unit := joinSyms(sigmaLex, seqAt(len(sigmaLex), i), "")
		if unit == "" {
			return
		}
		counts := make([]int, 0, 3)
		for _, k := range []int{1, 10, 100} {
			src := strings.Repeat(unit, k)
			cw := &countWriter{}
			var err liquid.SourceError
			r.Eval()
			p := explore.Safe(func() { err = c01.eng.ParseAndFRender(cw, []byte(src), synBind()) })
			if p != nil {
				r.Violation(p.Key(), map[string]any{"template_unit": unit, "repeat": k}, "output or SourceError", p.Value)
				return
			}
			if err != nil {
				r.Class("scaled/error")
				return
			}
			counts = append(counts, cw.n)
		}
		r.Class("scaled/ok")
		if len(counts) == 3 && (counts[1] > 10*counts[0]+10 || counts[2] > 100*counts[0]+100) {
			r.Violation("superlinear-writes", map[string]any{"template_unit": unit}, "writes grow at most linearly with repetition",
				fmt.Sprint(counts))
		}
	}})
	return fams
}

type countWriter struct{ n int }

func (c *countWriter) Write(b []byte) (int, error) { c.n++; return len(b), nil }

var _ io.Writer = (*countWriter)(nil)
