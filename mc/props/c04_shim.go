//go:build schedshim

package props

// Built by ./check C04 together with the sync-import overlay (tools/overlay.sh sched).
func init() { c04ShimOn = true }
