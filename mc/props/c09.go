package props

import (
	"fmt"
	"math"
	"strconv"
	"strings"
	"time"

	"github.com/osteele/liquid"
	"verifmc/explore"
	"verifmc/ref"
	"verifmc/univ"
)

// C09 — comparison, contains and boolean operators follow the documented value rules.

var c09 struct {
	eng *liquid.Engine
	u   []univ.Val
}

// c09Universe is the logical universe plus every numeric width of a few values.
func c09Universe() []univ.Val {
	u := univ.Logical()
	add := func(name string, l ref.V, v any) {
		u = append(u, univ.Val{Name: name, Build: func() any { return v }, L: l, HasL: true})
	}
	for _, n := range []int64{0, 1, 3, 200} {
		s := strconv.FormatInt(n, 10)
		add("int8_"+s, ref.Int(int64(int8(n))), int8(n))
		add("int16_"+s, ref.Int(n), int16(n))
		add("int32_"+s, ref.Int(n), int32(n))
		add("int64_"+s, ref.Int(n), int64(n))
		add("uint8_"+s, ref.Int(n), uint8(n))
		add("uint16_"+s, ref.Int(n), uint16(n))
		add("uint32_"+s, ref.Int(n), uint32(n))
		add("uint64_"+s, ref.Int(n), uint64(n))
		add("uint_"+s, ref.Int(n), uint(n))
		add("float32_"+s, ref.Float(float64(n)), float32(n))
		add("float64_"+s, ref.Float(float64(n)), float64(n))
	}
	add("int8_m1", ref.Int(-1), int8(-1))
	add("int64_m1", ref.Int(-1), int64(-1))
	add("float32_1_5", ref.Float(1.5), float32(1.5))
	add("float32_m1", ref.Float(-1), float32(-1))
	add("f2e53", ref.Float(9007199254740992), float64(9007199254740992))
	// floats on the edges of the integer ranges, and the integers next to them
	add("f2e63", ref.Float(9223372036854775808), float64(9223372036854775808))
	add("fm2e63", ref.Float(-9223372036854775808), float64(-9223372036854775808))
	add("f2e64", ref.Float(18446744073709551616), float64(18446744073709551616))
	add("f2e31", ref.Float(2147483648), float64(2147483648))
	add("f32_2e24p2", ref.Float(16777218), float32(16777218))
	add("u64_2e63", ref.Uint(1<<63), uint64(1)<<63)
	add("i2e24p1", ref.Int(16777217), 16777217)
	add("f1e18", ref.Float(1e18), 1e18)
	add("i1e18p1", ref.Int(1000000000000000001), 1000000000000000001)
	add("l_12_typed", univ.L(ref.Int(1), ref.Int(2)), []int{1, 2})
	add("l_12", univ.L(ref.Int(1), ref.Int(2)), []any{1, 2})
	add("l_12f", univ.L(ref.Float(1), ref.Float(2)), []float64{1, 2})
	add("l_nest2", univ.L(univ.L(ref.Int(1)), univ.L(ref.Int(2))), [][]int{{1}, {2}})
	add("l_s_ab", univ.L("a", "b"), []string{"a", "b"})
	// maps whose keys are bound to nil / empty values (contains tests the key, not the value)
	add("m_nilval", ref.NewMap("a", nil, "b", ref.Int(1)), map[string]any{"a": nil, "b": 1})
	add("m_falseval", ref.NewMap("a", false, "1", ""), map[string]any{"a": false, "1": ""})
	add("m_nilptr", ref.NewMap("a", nil), map[string]*int{"a": nil})
	add("l_with_nil_first", univ.L(nil, "a"), []any{nil, "a"})
	add("l_nil_typed", univ.L(), []string(nil))
	add("m_nil", ref.NewMap(), map[string]any(nil))
	// Drops behave as their ToLiquid value
	add("drop_1", ref.Int(1), univ.Drop{V: 1})
	add("drop_1_5", ref.Float(1.5), univ.Drop{V: 1.5})
	add("drop_a", "a", univ.Drop{V: "a"})
	add("drop_nil", nil, univ.Drop{V: nil})
	add("drop_false", false, univ.Drop{V: false})
	add("pdrop_l123", univ.L(ref.Int(1), ref.Int(2), ref.Int(3)), &univ.PDrop{V: []any{1, 2, 3}})
	add("drop_m_a", ref.NewMap("a", ref.Int(1)), univ.Drop{V: map[string]any{"a": 1}})
	add("l_of_drops", univ.L(ref.Int(1), "a"), []any{univ.Drop{V: 1}, &univ.PDrop{V: "a"}})
	add("l_123_u8", univ.L(ref.Int(1), ref.Int(2), ref.Int(3)), []uint8{1, 2, 3})
	// numbers that are the code points or the decimal spellings of the strings and keys around them ('a' = 97,
	// '1' = 49, U+00E9 = 233): a value of one kind never equals, is contained in or keys a value of another kind
	for _, n := range []int64{97, 49, 233} {
		s := strconv.FormatInt(n, 10)
		add("int_"+s, ref.Int(n), int(n))
		add("uint8_"+s, ref.Int(n), uint8(n))
		add("int32_"+s, ref.Int(n), int32(n))
		add("float64_"+s, ref.Float(float64(n)), float64(n))
	}
	// typed slices holding the boundary values of their element type (a wrapped conversion of the element or of
	// the needle would make them "contain" a number they do not hold)
	add("l_u64_edges", univ.L(ref.Uint(math.MaxUint64), ref.Uint(1<<63), ref.Int(1)), []uint64{math.MaxUint64, 1 << 63, 1})
	add("l_u8_edges", univ.L(ref.Int(255), ref.Int(200), ref.Int(0)), []uint8{255, 200, 0})
	add("l_i8_edges", univ.L(ref.Int(-128), ref.Int(-1), ref.Int(127)), []int8{-128, -1, 127})
	add("l_u32_edges", univ.L(ref.Int(1<<32-1), ref.Int(1<<31)), []uint32{1<<32 - 1, 1 << 31})
	add("l_i64_edges", univ.L(ref.Int(math.MinInt64), ref.Int(math.MaxInt64)), []int64{math.MinInt64, math.MaxInt64})
	add("l_f32_edges", univ.L(ref.Float(16777216), ref.Float(0.5)), []float32{16777216, 0.5})
	add("i_255", ref.Int(255), 255)
	add("i_m128", ref.Int(-128), -128)
	add("i_256", ref.Int(256), 256)
	add("i_m56", ref.Int(-56), -56)
	add("i_2e32m1", ref.Int(1<<32-1), 1<<32-1)
	add("f_m1", ref.Float(-1), -1.0)
	add("s_97", "97", "97")
	// maps of equal size whose keys differ, some bound to nil (a missing key is not a key bound to nil)
	add("m_xnil", ref.NewMap("x", nil), map[string]any{"x": nil})
	add("m_y1", ref.NewMap("y", ref.Int(1)), map[string]any{"y": 1})
	add("m_ynil", ref.NewMap("y", nil), map[string]any{"y": nil})
	add("m_xnil_z2", ref.NewMap("x", nil, "z", ref.Int(2)), map[string]any{"x": nil, "z": 2})
	add("m_y1_z2", ref.NewMap("y", ref.Int(1), "z", ref.Int(2)), map[string]any{"y": 1, "z": 2})
	add("l_m_xnil", univ.L(ref.NewMap("x", nil)), []any{map[string]any{"x": nil}})
	add("m_e_acute", ref.NewMap("é", ref.Int(1), "97", ref.Int(2)), map[string]any{"é": 1, "97": 2})
	add("l_s_a1e", univ.L("a", "1", "é", "97"), []string{"a", "1", "é", "97"})
	add("l_i_97", univ.L(ref.Int(97), ref.Int(49)), []int{97, 49})
	return u
}

var relOps = []string{"==", "!=", "<", ">", "<=", ">=", "contains"}

func c09Rel(a, b any, op string) (res string, o Outcome) {
	src := "{% if a " + op + " b %}T{% else %}F{% endif %}"
	o = Render(c09.eng, src, map[string]any{"a": a, "b": b})
	return o.Out, o
}

func c09Families(tier string) []explore.Family {
	if c09.u == nil {
		c09.u = c09Universe()
	}
	U := len(c09.u)
	var fams []explore.Family
	fams = append(fams, explore.Family{Name: "pairs", Count: int64(U * U), Run: func(i int64, r *explore.Rec) {
		ai, bi := int(i)/U, int(i)%U
		A, B := c09.u[ai], c09.u[bi]
		desc := func(extra ...any) any {
			m := map[string]any{"a": A.Name, "b": B.Name, "a_value": ref.Show(A.L), "b_value": ref.Show(B.L), "template": "{% if a OP b %}T{% else %}F{% endif %}"}
			for j := 0; j+1 < len(extra); j += 2 {
				m[extra[j].(string)] = extra[j+1]
			}
			return m
		}
		got := map[string]bool{} // a OP b
		rev := map[string]bool{} // b OP a
		r.State(ref.Kind(A.L) + "/" + ref.Kind(B.L))
		ok := true
		for _, op := range relOps {
			r.Eval()
			r.Transition()
			res, o := c09Rel(A.Build(), B.Build(), op)
			if o.Panic != nil || o.Err != nil || (res != "T" && res != "F") {
				r.Violation("operator-fails:"+op+":"+ref.Kind(A.L)+"/"+ref.Kind(B.L), desc("op", op), "T or F (an operator never fails)", o.String())
				ok = false
				continue
			}
			got[op] = res == "T"
			if op == "==" || op == "<" || op == "<=" {
				r.Eval()
				res2, o2 := c09Rel(B.Build(), A.Build(), op)
				if o2.Panic != nil || o2.Err != nil {
					ok = false
					continue
				}
				rev[op] = res2 == "T"
			}
		}
		r.Trace()
		if !ok {
			return
		}
		pair := ref.Kind(A.L) + "/" + ref.Kind(B.L)
		law := func(name string, holds bool, detail string) {
			if !holds {
				r.Violation("law:"+name+":"+pair, desc("law", name), name, detail+fmt.Sprintf(" observed %v", got))
			}
		}
		// coherence laws on the implementation's own answers
		law("a != b is not(a == b)", got["!="] == !got["=="], "")
		law("a > b is b < a", got[">"] == rev["<"], fmt.Sprintf("b<a=%v", rev["<"]))
		law("a <= b is (a < b or a == b)", got["<="] == (got["<"] || got["=="]), "")
		law("a >= b is b <= a", got[">="] == rev["<="], fmt.Sprintf("b<=a=%v", rev["<="]))
		law("== is symmetric", got["=="] == rev["=="], fmt.Sprintf("b==a=%v", rev["=="]))
		if ai == bi {
			law("== is reflexive", got["=="], "")
		}
		// reference rules
		exp := func(op string, t ref.Tri) {
			if t == ref.Unspecified {
				r.Class(op + "/" + pair + "/unspecified")
				return
			}
			r.Class(op + "/" + pair + "/" + t.String())
			if got[op] != (t == ref.True) {
				r.Violation("rule:"+op+":"+pair, desc("op", op), t.String(), fmt.Sprint(got[op]))
			}
		}
		eq, lt, gt := ref.Equal(A.L, B.L), ref.Less(A.L, B.L), ref.Less(B.L, A.L)
		exp("==", eq)
		exp("!=", triNot(eq))
		exp("<", lt)
		exp(">", gt)
		exp("<=", triOr(lt, eq))
		exp(">=", triOr(gt, eq))
		// contains
		switch x := A.L.(type) {
		case string:
			if s, isStr := B.L.(string); isStr {
				exp("contains", ref.B(strings.Contains(x, s)))
			}
		case ref.List:
			// membership by the implementation's own ==
			member := false
			for j := range x {
				r.Eval()
				o := Render(c09.eng, "{% if a["+strconv.Itoa(j)+"] == b %}T{% else %}F{% endif %}", map[string]any{"a": A.Build(), "b": B.Build()})
				if o.Out == "T" {
					member = true
				}
			}
			exp("contains", ref.B(member))
		case *ref.Map:
			if s, isStr := B.L.(string); isStr {
				_, has := x.Vals[s]
				exp("contains", ref.B(has))
			} else {
				exp("contains", ref.False)
			}
		}
		if r.WantSample() {
			r.Sample(desc("observed", fmt.Sprint(got)))
		}
	}})

	// what == says about two values is what it says about arrays holding them, and what contains says about
	// membership - also for operands outside the six kinds (times: one instant read in two zones, a pointer to a
	// time; structs built twice; named types), where no reference rule applies but the clauses still tie the three
	utc := time.Date(2024, 3, 1, 12, 0, 0, 0, time.UTC)
	type cohVal struct {
		name  string
		build func() any
	}
	var coh []cohVal
	for _, v := range c09.u {
		coh = append(coh, cohVal{v.Name, v.Build})
	}
	coh = append(coh,
		cohVal{"time_utc", func() any { return utc }}, cohVal{"time_same_instant_other_zone", func() any { return utc.In(time.FixedZone("X", 2*3600)) }},
		cohVal{"time_later", func() any { return utc.Add(time.Hour) }}, cohVal{"time_pointer", func() any { t := utc; return &t }},
		cohVal{"time_local_zone", func() any { return utc.In(time.Local) }}, cohVal{"time_with_monotonic", func() any { return time.Now() }},
		cohVal{"struct", func() any { return univ.Plain{A: 1, B: "x"} }}, cohVal{"struct_other", func() any { return univ.Plain{A: 2, B: "x"} }},
		cohVal{"struct_pointer", func() any { return &univ.Plain{A: 1, B: "x"} }}, cohVal{"named_string", func() any { return univ.NamedString("a") }},
		cohVal{"named_int", func() any { return univ.NamedInt(3) }}, cohVal{"duration", func() any { return time.Duration(3) }})
	C := len(coh)
	fams = append(fams, explore.Family{Name: "equality-of-values-and-of-arrays-holding-them", Count: int64(C * C), Run: func(i int64, r *explore.Rec) {
		A, B := coh[int(i)/C], coh[int(i)%C]
		if A.name == "time_with_monotonic" && B.name == "time_with_monotonic" {
			return // two readings of the clock
		}
		a, b := A.build(), B.build()
		bind := map[string]any{"a": a, "b": b, "la": []any{a}, "lb": []any{b}, "lla": []any{[]any{a}}, "llb": []any{[]any{b}}}
		r.Eval()
		r.Transition()
		o := Render(c09.eng, "{% if a == b %}T{% else %}F{% endif %}{% if la == lb %}T{% else %}F{% endif %}{% if la contains b %}T{% else %}F{% endif %}{% if lla == llb %}T{% else %}F{% endif %}{% if la != lb %}F{% else %}T{% endif %}", bind)
		r.Class("coherent/" + o.Out)
		r.State("coherence")
		if o.Panic != nil || o.Err != nil || (o.Out != "TTTTT" && o.Out != "FFFFF") {
			r.Violation("law:array-equality-is-element-wise", map[string]any{"a": A.name, "b": B.name, "template": "a == b | [a] == [b] | [a] contains b | [[a]] == [[b]] | not([a] != [b])"}, "five equal answers", o.String())
		}
	}})
	// contains tests a map KEY, however the map is typed: generic, interface-keyed (what YAML decoding produces),
	// keyed by a named string type, with typed values; a key bound to nil is still a key
	type mrep struct {
		name string
		m    any
	}
	one := 1
	mreps := []mrep{
		{"map[string]any", map[string]any{"a": 1, "b": nil, "": 2}}, {"map[any]any", map[any]any{"a": 1, "b": nil, "": 2}},
		{"map[NamedString]any", map[univ.NamedString]any{"a": 1, "b": nil, "": 2}}, {"map[string]*int", map[string]*int{"a": &one, "b": nil, "": &one}},
		{"map[string]int", map[string]int{"a": 1, "b": 0, "": 2}}, {"Drop yielding map[any]any", univ.Drop{V: map[any]any{"a": 1, "b": nil, "": 2}}},
		{"pointer to map", &map[string]any{"a": 1, "b": nil, "": 2}},
	}
	mprobes := []struct {
		lit  string
		want bool
	}{{"'a'", true}, {"'b'", true}, {"''", true}, {"'zz'", false}, {"'A'", false}, {"ka", true}, {"kz", false}, {"nil", false}, {"1", false}, {"kd", true}}
	fams = append(fams, explore.Family{Name: "map-key-containment-by-representation", Count: int64(len(mreps) * len(mprobes)), Run: func(i int64, r *explore.Rec) {
		mp, pr := mreps[int(i)/len(mprobes)], mprobes[int(i)%len(mprobes)]
		src := "{% if m contains " + pr.lit + " %}T{% else %}F{% endif %}"
		r.Eval()
		r.Transition()
		o := Render(c09.eng, src, map[string]any{"m": mp.m, "ka": "a", "kz": "z", "kd": univ.Drop{V: "b"}})
		r.Class("map-key/" + o.Out)
		r.State("map-key")
		want := map[bool]string{true: "T", false: "F"}[pr.want]
		if o.Panic != nil || o.Err != nil || o.Out != want {
			r.Violation("rule:contains:map-key-by-representation", map[string]any{"template": src, "m": mp.name + ` {"a":1,"b":nil,"":2}`, "ka": "a", "kz": "z", "kd": "Drop yielding b"}, want, o.String())
		}
	}})
	// interface-keyed maps with keys of other kinds: a key is found by a probe == to it
	fams = append(fams, explore.Family{Name: "map-keys-of-other-kinds", Count: 1, Run: func(i int64, r *explore.Rec) {
		src := "{% if m contains 1 %}T{% else %}F{% endif %}{% if m contains 2 %}T{% else %}F{% endif %}{% if m contains true %}T{% else %}F{% endif %}{% if m contains '1' %}T{% else %}F{% endif %}{% if m contains 2.5 %}T{% else %}F{% endif %}{% if m contains 3.5 %}T{% else %}F{% endif %}"
		r.Eval()
		o := Render(c09.eng, src, map[string]any{"m": map[any]any{1: "x", true: "y", 2.5: "z"}})
		if o.Panic != nil || o.Err != nil || o.Out != "TFTFTF" {
			r.Violation("rule:contains:map-keys-of-other-kinds", map[string]any{"template": src, "m": `map[any]any{1:"x", true:"y", 2.5:"z"}`}, "TFTFTF", o.String())
		}
	}})
	// every operator YIELDS a boolean, also where the value is used rather than tested: assigned and compared with
	// true/false, as a case subject, printed - in default and strict mode (nil and x is false, not nil)
	bvNames := []string{"n", "f", "t", "z", "e", "x", "undefined_name"}
	bvOps := []string{"and", "or", "==", "!=", "<", ">", "<=", ">=", "contains"}
	strictEng := liquid.NewEngine()
	strictEng.StrictVariables()
	fams = append(fams, explore.Family{Name: "operators-yield-booleans", Count: int64(len(bvNames) * len(bvNames) * len(bvOps)), Run: func(i int64, r *explore.Rec) {
		rx := radix{i}
		op, b, a := bvOps[rx.next(len(bvOps))], bvNames[rx.next(len(bvNames))], bvNames[rx.next(len(bvNames))]
		bind := func() map[string]any { return map[string]any{"n": nil, "f": false, "t": true, "z": 0, "e": "", "x": "x"} }
		cond := a + " " + op + " " + b
		ref := Render(c09.eng, "{% if "+cond+" %}true{% else %}false{% endif %}", bind())
		if ref.Err != nil || ref.Panic != nil {
			return // (judged by the pairs family)
		}
		forms := []string{"{% assign v = " + cond + " %}{% if v == true %}true{% elsif v == false %}false{% else %}neither{% endif %}", "{% case " + cond + " %}{% when true %}true{% when false %}false{% else %}neither{% endcase %}",
			"{{ " + cond + " }}", "{% assign v = " + cond + " %}{{ v }}"}
		for _, src := range forms {
			for _, eng := range []*liquid.Engine{c09.eng, strictEng} {
				if eng == strictEng && (a == "undefined_name" || b == "undefined_name" || a == "n" || b == "n") && false {
					continue
				}
				r.Eval()
				r.Transition()
				o := Render(eng, src, bind())
				if o.Panic != nil || o.Err != nil || o.Out != ref.Out {
					r.Violation("law:operator-yields-a-boolean:"+op, map[string]any{"template": src, "strict_variables": eng == strictEng, "n": "nil", "f": false, "t": true, "z": 0, "e": "", "x": "x"}, ref.Out, o.String())
				}
			}
		}
		r.Class("yields-boolean/" + op)
		r.State("yields-boolean")
	}})
	// the same relations spelled with literals (where both operands have a literal form)
	var lits []univ.Val
	for _, v := range c09.u {
		if v.Lit != "" {
			lits = append(lits, v)
		}
	}
	NL := len(lits)
	fams = append(fams, explore.Family{Name: "literal-pairs", Count: int64(NL * NL * len(relOps)), Run: func(i int64, r *explore.Rec) {
		rx := radix{i}
		oi, bi, ai := rx.next(len(relOps)), rx.next(NL), rx.next(NL)
		A, B, op := lits[ai], lits[bi], relOps[oi]
		src := "{% if " + A.Lit + " " + op + " " + B.Lit + " %}T{% else %}F{% endif %}"
		r.Eval()
		r.Transition()
		o := Render(c09.eng, src, map[string]any{})
		r.Eval()
		res, o2 := c09Rel(A.Build(), B.Build(), op)
		if o.Panic != nil || o.Err != nil {
			r.Violation("operator-fails-literal:"+op, map[string]any{"template": src}, "T or F", o.String())
			return
		}
		r.Class("lit/" + op + "/" + o.Out)
		if o2.Err == nil && o2.Panic == nil && res != o.Out {
			r.Violation("literal-vs-variable:"+op+":"+ref.Kind(A.L)+"/"+ref.Kind(B.L), map[string]any{"template": src, "a": A.Name, "b": B.Name},
				"same verdict with literals as with variables bound to the same values: "+res, o.Out)
		}
	}})

	// scaled: long strings and long arrays (lengths around powers of two): equal, differing only in the last
	// element, one a strict prefix of the other; contains with the needle at the very end
	lens := []int{7, 8, 9, 15, 16, 17, 31, 32, 33, 63, 64, 65, 70, 100, 127, 128, 129, 255, 256, 257, 1000, 4097, 65537}
	fams = append(fams, explore.Family{Name: "scaled", Count: int64(len(lens) * 2), Run: func(i int64, r *explore.Rec) {
		n, asArray := lens[int(i)/2], int(i)%2 == 1
		mk := func(k int, last int) any {
			if asArray {
				a := make([]any, k)
				for j := range a {
					a[j] = j % 7
				}
				if k > 0 {
					a[k-1] = last
				}
				return a
			}
			bs := []byte(strings.Repeat("abcdefg", k/7+1)[:k])
			if k > 0 {
				bs[k-1] = byte('a' + last)
			}
			return string(bs)
		}
		x, same, lastDiffers := mk(n, 1), mk(n, 1), mk(n, 2)
		var prefix any
		if asArray {
			prefix = append([]any{}, x.([]any)[:n-1]...)
		} else {
			prefix = x.(string)[:n-1]
		}
		var needle any = 2
		if !asArray {
			needle = "c" // mk(n,2) ends in 'c'
		}
		check := func(a, b any, op string, want bool, what string) {
			r.Eval()
			r.Transition()
			res, o := c09Rel(a, b, op)
			exp := "F"
			if want {
				exp = "T"
			}
			if o.Panic != nil || o.Err != nil || res != exp {
				r.Violation("rule:scaled:"+op, map[string]any{"length": n, "array": asArray, "operands": what, "op": op}, exp, trunc80(o.String()))
			}
		}
		check(x, same, "==", true, "two equal values")
		check(x, same, "!=", false, "two equal values")
		check(x, lastDiffers, "==", false, "differ in the last element only")
		check(lastDiffers, x, "!=", true, "differ in the last element only")
		check(x, prefix, "==", false, "one is a strict prefix of the other")
		check(prefix, x, "==", false, "one is a strict prefix of the other")
		if !asArray {
			check(x, lastDiffers, "<", true, "strings differing in the last character")
			check(lastDiffers, x, "<", false, "strings differing in the last character")
			check(prefix, x, "<", true, "a strict prefix is smaller")
			check(x, prefix, ">", true, "a strict prefix is smaller")
			check(x, x, "<=", true, "same string")
		}
		check(lastDiffers, needle, "contains", true, "needle is the last element / last character")
		check(x, needle, "contains", asArray && n > 3 || !asArray && n > 3, "needle occurs earlier or not at all")
		r.Trace()
		r.Class(fmt.Sprintf("scaled/%v", asArray))
		r.State("scaled")
	}})

	// values that SHARE storage: sub-slices of one backing array, the same map object twice, a slice next to a copy
	// of itself. Equality and contains look at contents, never at addresses.
	type shCase struct {
		name, expr string
		bind       func() map[string]any
		want       bool
	}
	items := func() []any { return []any{"x", "y", "z"} }
	shCases := []shCase{
		{"[it[:1], it[:3]] == [it[:1], it[:1]]", "a == b", func() map[string]any {
			it := items()
			return map[string]any{"a": []any{it[:1], it[:3]}, "b": []any{it[:1], it[:1]}}
		}, false},
		{"[it[:1], it[:1]] == [it[:1], it[:3]]", "a == b", func() map[string]any {
			it := items()
			return map[string]any{"a": []any{it[:1], it[:1]}, "b": []any{it[:1], it[:3]}}
		}, false},
		{"[it[:2], it[:2]] == [it[:2], it[:2]]", "a == b", func() map[string]any {
			it := items()
			return map[string]any{"a": []any{it[:2], it[:2]}, "b": []any{it[:2], it[:2]}}
		}, true},
		{"[it[:1], it[:3]] != [it[:1], it[:1]]", "a != b", func() map[string]any {
			it := items()
			return map[string]any{"a": []any{it[:1], it[:3]}, "b": []any{it[:1], it[:1]}}
		}, true},
		{"[[it[:1], it[:3]]] contains [it[:1], it[:1]]", "a contains b", func() map[string]any {
			it := items()
			return map[string]any{"a": []any{[]any{it[:1], it[:3]}}, "b": []any{it[:1], it[:1]}}
		}, false},
		{"it[0:2] == it[1:3]", "a == b", func() map[string]any { it := items(); return map[string]any{"a": it[0:2], "b": it[1:3]} }, false},
		{"it == it (same slice)", "a == b", func() map[string]any { it := items(); return map[string]any{"a": it, "b": it} }, true},
		{"it[:0] == it[3:]", "a == b", func() map[string]any { it := items(); return map[string]any{"a": it[:0], "b": it[3:]} }, true},
		{"[m, m] == [m, m2] (m2 differs)", "a == b", func() map[string]any {
			m, m2 := map[string]any{"k": 1}, map[string]any{"k": 2}
			return map[string]any{"a": []any{m, m}, "b": []any{m, m2}}
		}, false},
		{"[m, m2] == [m, m] (m2 differs)", "a == b", func() map[string]any {
			m, m2 := map[string]any{"k": 1}, map[string]any{"k": 2}
			return map[string]any{"a": []any{m, m2}, "b": []any{m, m}}
		}, false},
		{"[s, s] contains copy of s", "a contains b", func() map[string]any {
			it := items()
			return map[string]any{"a": []any{it, it}, "b": []any{"x", "y", "z"}}
		}, true},
		{"nested three deep, last leaf differs", "a == b", func() map[string]any {
			it := items()
			return map[string]any{"a": []any{[]any{it[:2], []any{it[:2]}}, []any{it[:2], []any{it[:3]}}}, "b": []any{[]any{it[:2], []any{it[:2]}}, []any{it[:2], []any{it[:2]}}}}
		}, false},
	}
	fams = append(fams, explore.Family{Name: "values-sharing-storage", Count: int64(len(shCases)), Run: func(i int64, r *explore.Rec) {
		c := shCases[i]
		src := "{% if " + c.expr + " %}T{% else %}F{% endif %}"
		r.Eval()
		r.Transition()
		r.Trace()
		o := Render(c09.eng, src, c.bind())
		want := map[bool]string{true: "T", false: "F"}[c.want]
		r.Class("shared-storage/" + want)
		if o.Panic != nil || o.Err != nil || o.Out != want {
			r.Violation("rule:shared-storage", map[string]any{"template": src, "values": c.name}, want, o.String())
		}
	}})

	// boolean structure over the truthiness universe
	tv := []struct {
		name string
		v    func() any
		t    bool
	}{
		{"n", func() any { return nil }, false}, {"f", func() any { return false }, false}, {"t", func() any { return true }, true},
		{"z", func() any { return 0 }, true}, {"e", func() any { return "" }, true}, {"l", func() any { return []any{} }, true},
		{"m", func() any { return map[string]any{} }, true}, {"x", func() any { return "x" }, true},
		// operands that are not plain variables: Drops (and a pointer) reached through a property, an index or a filter
		{"h.df", nil, false}, {"h.dn", nil, false}, {"h.dt", nil, true}, {"dl[0]", nil, false}, {"dl.last", nil, true}, {"h.pf", nil, false},
	}
	T := len(tv)
	bind := func() map[string]any {
		f := false
		b := map[string]any{
			"h":  map[string]any{"df": univ.Drop{V: false}, "dn": &univ.PDrop{V: nil}, "dt": univ.Drop{V: true}, "pf": &f},
			"dl": []any{univ.Drop{V: false}, univ.Drop{V: 0}},
		}
		for _, t := range tv {
			if t.v == nil {
				continue
			}
			b[t.name] = t.v()
		}
		return b
	}
	shapes := boolShapes()
	for _, sh := range shapes {
		sh := sh
		cnt := int64(1)
		for j := 0; j < sh.leaves; j++ {
			cnt *= int64(T)
		}
		fams = append(fams, explore.Family{Name: "bool:" + sh.name, Count: cnt, Run: func(i int64, r *explore.Rec) {
			rx := radix{i}
			leaves := make([]int, sh.leaves)
			for j := range leaves {
				leaves[j] = rx.next(T)
			}
			names := make([]string, sh.leaves)
			vals := make([]bool, sh.leaves)
			for j, l := range leaves {
				names[j], vals[j] = tv[l].name, tv[l].t
			}
			expr, want := sh.build(names, vals)
			src := "{% if " + expr + " %}T{% else %}F{% endif %}"
			r.Eval()
			r.Transition()
			r.Trace()
			o := Render(c09.eng, src, bind())
			exp := "F"
			if want {
				exp = "T"
			}
			r.Class("bool/" + sh.name + "/" + exp)
			r.State("bool:" + sh.name)
			if o.Panic != nil || o.Err != nil || o.Out != exp {
				r.Violation("bool:"+sh.name, map[string]any{"template": src, "bindings": "n=nil f=false t=true z=0 e=\"\" l=[] m={} x=\"x\""}, exp, o.String())
			}
			if r.WantSample() {
				r.Sample(map[string]any{"template": src, "observed": o.Out})
			}
		}})
	}
	return fams
}

func triNot(t ref.Tri) ref.Tri {
	switch t {
	case ref.True:
		return ref.False
	case ref.False:
		return ref.True
	}
	return ref.Unspecified
}

func triOr(a, b ref.Tri) ref.Tri {
	if a == ref.True || b == ref.True {
		return ref.True
	}
	if a == ref.Unspecified || b == ref.Unspecified {
		return ref.Unspecified
	}
	return ref.False
}

type boolShape struct {
	name   string
	leaves int
	build  func(names []string, vals []bool) (string, bool)
}

// boolShapes: homogeneous unparenthesised chains with <=3 operators, and every
// fully parenthesised binary tree with <=3 operators and any and/or labelling.
func boolShapes() []boolShape {
	var out []boolShape
	for _, op := range []string{"and", "or"} {
		for k := 1; k <= 3; k++ {
			op, k := op, k
			out = append(out, boolShape{name: fmt.Sprintf("chain-%s-%d", op, k), leaves: k + 1, build: func(n []string, v []bool) (string, bool) {
				res := v[0]
				for _, x := range v[1:] {
					if op == "and" {
						res = res && x
					} else {
						res = res || x
					}
				}
				return strings.Join(n, " "+op+" "), res
			}})
		}
	}
	// trees
	type tree struct {
		l, r *tree
	}
	var gen func(k int) []*tree
	gen = func(k int) []*tree {
		if k == 0 {
			return []*tree{nil}
		}
		var ts []*tree
		for i := 0; i < k; i++ {
			for _, l := range gen(i) {
				for _, r := range gen(k - 1 - i) {
					ts = append(ts, &tree{l, r})
				}
			}
		}
		return ts
	}
	for k := 2; k <= 3; k++ {
		for ti, t := range gen(k) {
			for mask := 0; mask < 1<<k; mask++ {
				t, mask, k := t, mask, k
				out = append(out, boolShape{name: fmt.Sprintf("tree%d-%d-%d", k, ti, mask), leaves: k + 1, build: func(n []string, v []bool) (string, bool) {
					li, oi := 0, 0
					var walk func(t *tree, top bool) (string, bool)
					walk = func(t *tree, top bool) (string, bool) {
						if t == nil {
							s, b := n[li], v[li]
							li++
							return s, b
						}
						ls, lb := walk(t.l, false)
						op := "and"
						if mask&(1<<oi) != 0 {
							op = "or"
						}
						oi++
						rs, rb := walk(t.r, false)
						res := lb && rb
						if op == "or" {
							res = lb || rb
						}
						s := ls + " " + op + " " + rs
						if !top {
							s = "(" + s + ")"
						}
						return s, res
					}
					_ = k
					return walk(t, true)
				}})
			}
		}
	}
	return out
}

func init() {
	explore.Register(&explore.Prop{
		ID:    "C09",
		Level: "model_checking",
		Rule: "all ordered pairs of the value universe (every kind; every numeric width of 0,1,3,200; boundary ints/floats; typed and generic arrays; maps) x the 7 operators, " +
			"as variables and (where expressible) as literals; strings and arrays of 7..65537 elements (23 lengths) that are equal, differ in the last element only or are strict prefixes, and contains with the needle at the very end; all and/or expressions with <=3 operators that are homogeneous chains or fully parenthesised trees over 8 truthiness values; " +
			"class = (operator, kind pair, verdict); state = operand kind pair / boolean shape; transition = one operator evaluation; trace = one pair or expression validated on the implementation",
		Assumptions: []string{
			"reference rules are those of the statement; map==map, ordering of booleans/arrays/maps, and 'contains' on a scalar or with a non-string needle on a string are left unspecified (coherence laws and never-fails still checked)",
			"operands are compared through {% if a OP b %} with a and b bound as variables",
			"NaN is not among the numbers (it has no numeric value to compare by; IEEE makes it unequal to itself)",
		},
		Setup:    func(string) { c09.eng = liquid.NewEngine() },
		Families: c09Families,
		Bound: func(string) string {
			return "universe of " + strconv.Itoa(len(c09Universe())) + " values, all ordered pairs x 7 operators; boolean shapes with <=3 operators over 8 values"
		},
	})
}
