package props

import (
	"runtime"
	"time"

	"verifmc/explore"
	"verifmc/univ"
)

// C02 (memory addresses): the same logical value built twice - both copies alive at once, hence at different
// addresses - renders to the same bytes through every printing position.

type c02Node struct {
	Title string
	Next  *c02Node
}

type c02Holder struct {
	Name  string
	Count *int
	Inner *c02Node
	Any   any
	when  *time.Time
	small *int
	List  []*c02Node
}

type c02Dated struct {
	At   *time.Time
	Then time.Time
}

func c02Ring() (a, b *c02Node) {
	a = &c02Node{Title: "a"}
	b = &c02Node{Title: "b", Next: a}
	a.Next = b
	return
}

var c02AddrValues = []struct {
	name  string
	build func() any
}{
	{"map-of-struct-pointers", func() any {
		return map[string]any{"x": &c02Node{Title: "t"}, "y": &c02Node{Title: "u", Next: &c02Node{Title: "w"}}}
	}},
	{"struct-with-pointer-fields", func() any {
		n, k := 3, 4
		t := time.Date(2024, 3, 1, 12, 0, 0, 0, time.UTC)
		return c02Holder{Name: "h", Count: &n, Inner: &c02Node{Title: "in"}, Any: &k, when: &t, small: &k, List: []*c02Node{{Title: "l1"}, nil}}
	}},
	{"pointer-to-struct-with-pointer-fields", func() any { n := 3; return &c02Holder{Name: "h", Count: &n, Any: []any{&n}} }},
	{"slice-of-struct-pointers", func() any { return []any{&c02Node{Title: "t"}, &c02Node{Title: "u", Next: &c02Node{Title: "w"}}} }},
	{"typed-slice-of-struct-pointers", func() any { return []*c02Node{{Title: "t"}, {Title: "u", Next: &c02Node{Title: "w"}}, nil} }},
	{"struct-graph-with-a-cycle", func() any { a, _ := c02Ring(); return a }},
	{"map-of-struct-graph-with-a-cycle", func() any { a, b := c02Ring(); return map[string]*c02Node{"a": a, "b": b} }},
	{"pointer-to-pointer", func() any { n := 3; p := &n; return &p }},
	{"drop-yielding-struct-pointer", func() any { return univ.Drop{V: &c02Node{Title: "d", Next: &c02Node{Title: "e"}}} }},
	{"struct-with-time-pointer", func() any {
		t := time.Date(2024, 3, 1, 12, 0, 0, 0, time.UTC)
		return c02Dated{At: &t, Then: t}
	}},
	{"map-with-non-string-keys-of-pointers", func() any { n := 3; return map[any]any{1: &c02Node{Title: "t"}, "k": &n} }},
	{"array-of-pointers", func() any { n, k := 3, 4; return [2]*int{&n, &k} }},
	{"map-of-slices-of-pointers", func() any { n := 3; return map[string][]*int{"a": {&n, nil}} }},
	{"struct-holding-a-drop-and-a-map", func() any {
		return struct {
			D any
			M map[string]*c02Node
		}{univ.Drop{V: "dv"}, map[string]*c02Node{"k": {Title: "mv"}}}
	}},
}

var c02AddrTemplates = []string{
	"{{ v }}", "{{ v | join: ',' }}", "{% for x in v %}{{ x }};{% endfor %}", "{{ v | json }}", "{{ v | inspect }}", "{{ v | append: '!' }}|{{ 'x' | append: v }}",
	"{{ v | first }}|{{ v | last }}|{{ v | size }}", "{% assign c = v %}{{ c }}", "{% capture c %}{{ v }}{% endcapture %}{{ c | size }}|{{ c }}", "{{ v | default: 'd' }}",
	"{{ v | escape }}|{{ v | upcase }}|{{ v | strip }}|{{ v | url_encode }}", "{{ v.Next }}|{{ v.x }}|{{ v[0] }}|{{ v.Inner }}|{{ v.a }}|{{ v.List }}|{{ v.At }}", "{{ v | sort | join }}|{{ v | reverse | join }}",
	"{{ v | uniq | join }}|{{ v | compact | join }}|{{ v | concat: v | join }}", "{{ v | map: 'Title' | join }}|{{ v | map: 'Next' | join }}", "{{ v | type }}",
	"{% if v == v %}T{% endif %}{% if v contains 'x' %}C{% endif %}{% if v %}Y{% endif %}", "{{ v | slice: 0, 3 }}|{{ v | split: ' ' | join: '_' }}|{{ v | replace: 'x', 'y' }}|{{ v | truncate: 50 }}",
	"{{ v | plus: 1 }}", "{{ v | date: '%Y' }}", "{{ 7 | divided_by: v }}", "{% include v %}", "{% for x in v %}{{ x | join: ',' }}{{ x[1] }};{% endfor %}", "{% case v %}{% when 1 %}a{% else %}{{ v }}{% endcase %}", "{% tablerow x in v %}{{ x }}{% endtablerow %}",
}

func c02AddrFamily() explore.Family {
	V, T := len(c02AddrValues), len(c02AddrTemplates)
	return explore.Family{Name: "values-holding-pointers-built-twice", Count: int64(V * T), Run: func(i int64, r *explore.Rec) {
		val, src := c02AddrValues[int(i)/T], c02AddrTemplates[int(i)%T]
		b1, b2 := val.build(), val.build() // both alive until the end: no address can be shared
		r.Eval()
		r.Transition()
		r.Trace()
		o1 := Render(c02.eng, src, map[string]any{"v": b1})
		o2 := Render(c02.eng, src, map[string]any{"v": b2})
		o3 := Render(c02.eng, src, map[string]any{"v": b1})
		runtime.KeepAlive(b1)
		runtime.KeepAlive(b2)
		r.Class("addresses/" + o1.Class())
		r.State("addresses")
		desc := map[string]any{"template": src, "value": val.name}
		if o1.Panic != nil {
			r.Violation("panic:printing-pointers:"+o1.Panic.Key(), desc, "output or an error", o1.String())
			return
		}
		if o1.Sig() != o3.Sig() {
			r.Violation("repeat-differs:values-holding-pointers", desc, o1.String(), o3.String())
		}
		if o1.Sig() != o2.Sig() {
			key := "address-dependent:" + val.name
			if src == "{{ v | inspect }}" {
				key = "address-dependent:inspect-of-a-value-json-cannot-encode"
			}
			r.Violation(key, desc, "the same bytes for the same value built twice: "+o1.String(), o2.String())
		}
		if r.WantSample() {
			r.Sample(map[string]any{"case": desc, "observed": o1.String()})
		}
	}}
}
