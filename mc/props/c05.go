package props

import (
	"fmt"
	"strconv"
	"strings"

	"github.com/osteele/liquid"
	"github.com/osteele/liquid/parser"
	"verifmc/explore"
)

// C05 — literal text, raw blocks and string values pass through byte-for-byte.

var sigmaChar = []string{"{", "%", "}", "-", `"`, " ", "\n", "a"}

var c05 struct {
	eng   *liquid.Engine
	alt   *liquid.Engine // the same engine with the delimiters [[ ]] [% %]
	calls int
}

func c05Scan(r *explore.Rec, s string, what string) bool {
	ok := true
	for _, k := range []int{0, 1, 7} {
		r.Eval()
		var toks []parser.Token
		if p := explore.Safe(func() { toks = parser.Scan(s, parser.SourceLoc{Pathname: "p", LineNo: k}, nil) }); p != nil {
			r.Violation(p.Key(), map[string]any{"source": s}, "tokens", p.Value)
			return false
		}
		var sb strings.Builder
		off := 0
		kinds := ""
		for _, t := range toks {
			switch t.Type {
			case parser.TrimLeftTokenType, parser.TrimRightTokenType:
				if t.Source != "" {
					r.Violation("P1:trim-token-has-source", map[string]any{"source": s}, "empty Source", strconv.Quote(t.Source))
					ok = false
				}
				kinds += "-"
				continue
			case parser.TextTokenType:
				kinds += "t"
			case parser.TagTokenType:
				kinds += "T"
			case parser.ObjTokenType:
				kinds += "O"
			}
			// (P2) line = start + newlines before the token's offset
			wantLine := k + strings.Count(s[:minInt(off, len(s))], "\n")
			if t.SourceLoc.LineNo != wantLine {
				r.Violation("P2:line-number", map[string]any{"source": s, "start_line": k, "token": t.Source}, strconv.Itoa(wantLine), strconv.Itoa(t.SourceLoc.LineNo))
				ok = false
			}
			if t.SourceLoc.Pathname != "p" {
				r.Violation("P2:path", map[string]any{"source": s}, "p", t.SourceLoc.Pathname)
				ok = false
			}
			sb.WriteString(t.Source)
			off += len(t.Source)
		}
		// (P1) partition
		if sb.String() != s {
			r.Violation("P1:partition", map[string]any{"source": s, "what": what}, strconv.Quote(s), strconv.Quote(sb.String()))
			ok = false
		}
		if k == 0 {
			if len(kinds) > 6 {
				kinds = kinds[:6] + "+"
			}
			r.Class("scan/" + kinds)
		}
	}
	return ok
}

func minInt(a, b int) int {
	if a < b {
		return a
	}
	return b
}

func onlyText(s string) bool {
	for _, t := range parser.Scan(s, parser.SourceLoc{}, nil) {
		if t.Type != parser.TextTokenType {
			return false
		}
	}
	return true
}

func c05Families(tier string) []explore.Family {
	L := 6
	if tier == "thorough" {
		L = 8
	}
	K := len(sigmaChar)
	var fams []explore.Family
	str := func(i int64) string { return joinSyms(sigmaChar, seqAt(K, i), "") }

	fams = append(fams, explore.Family{Name: "source", Count: seqCount(K, L), Run: func(i int64, r *explore.Rec) {
		s := str(i)
		c05Scan(r, s, "whole source")
		// (P3)
		if (!strings.Contains(s, "{{") && !strings.Contains(s, "{%")) || onlyText(s) {
			r.Eval()
			r.Trace()
			o := Render(c05.eng, s, map[string]any{})
			if o.Panic != nil || o.Err != nil || o.Out != s {
				r.Violation("P3:text-renders-to-itself", map[string]any{"source": s}, strconv.Quote(s), o.String())
			}
		}
		if r.WantSample() {
			r.Sample(map[string]any{"source": s})
		}
	}})
	// raw bodies
	Lr := L - 1
	fams = append(fams, explore.Family{Name: "raw-body", Count: seqCount(K, Lr), Run: func(i int64, r *explore.Rec) {
		s := str(i)
		for _, form := range []struct{ pre, post string }{{"{% raw %}", "{% endraw %}"}, {"x{%raw%}", "{%endraw%}y"}, {"{%- raw -%}", "{%- endraw -%}"}, {" \n{% raw %}", "{% endraw %}\t "}} {
			src := form.pre + s + form.post
			r.Eval()
			o := Render(c05.eng, src, map[string]any{})
			want := strings.Trim(form.pre, "{%-raw} ") + s + strings.Trim(form.post, "{%-endraw} ")
			if strings.HasPrefix(form.pre, " ") {
				// literal whitespace around the block (no hyphens anywhere): kept, also right after a render that ended in a trim marker
				want = " \n" + s + "\t "
			}
			r.Class("raw/" + o.Class())
			if o.Panic != nil || o.Err != nil || o.Out != want {
				r.Violation(c05BodyKey("P4:raw-body-verbatim", src, "endraw"), map[string]any{"template": src}, strconv.Quote(want), o.String())
			}
		}
	}})
	// comment bodies: nothing rendered, nothing evaluated
	fams = append(fams, explore.Family{Name: "comment-body", Count: seqCount(K, Lr), Run: func(i int64, r *explore.Rec) {
		s := str(i)
		src := "{% comment %}" + s + "{% endcomment %}MARK"
		r.Eval()
		o := Render(c05.eng, src, map[string]any{})
		r.Class("comment/" + o.Class())
		if o.Panic != nil || o.Err != nil || o.Out != "MARK" {
			r.Violation(c05BodyKey("P5:comment-body-ignored", src, "endcomment"), map[string]any{"template": src}, `"MARK"`, o.String())
		}
	}})
	// code points that tools like to "clean up" (byte-order mark, zero-width and no-break spaces, line and paragraph
	// separators, NUL, CR, DEL, a lone continuation byte, the replacement character, a private-use and a non-BMP
	// character) at the start, in the middle and at the end of text, of a raw body, of a comment-adjacent text and
	// of a printed value: everything outside tags reaches the output unchanged
	specials := []string{"\ufeff", "\u200b", "\u00a0", "\u2028", "\u2029", "\x00", "\r", "\r\n", "\x7f", "\x80", "\ufffd", "\ue000", "\U0001f600", "\u0085", "\u00ad", "\ufeff\ufeff", "\xef\xbb", "\xff\xfe", "\t", "\v", "\f"}
	spForms := []struct{ src, want string }{
		{"%shello", "%shello"}, {"he%sllo", "he%sllo"}, {"hello%s", "hello%s"}, {"%s", "%s"},
		{"%s{% raw %}r{% endraw %}", "%sr"}, {"{% raw %}%sr%s{% endraw %}%s", "%sr%s%s"}, {"%s{% comment %}c{% endcomment %}%s", "%s%s"},
		{"%s{{ x }}%s", "%sX%s"}, {"{{ v }}", "%s"}, {"a{{ v }}b{{ v }}", "a%sb%s"}, {"%s{% if true %}%s{% endif %}%s", "%s%s%s"}, {"%s\n{{ x }}", "%s\nX"},
	}
	fams = append(fams, explore.Family{Name: "special-code-points", Count: int64(len(specials) * len(spForms)), Run: func(i int64, r *explore.Rec) {
		sp, f := specials[int(i)%len(specials)], spForms[int(i)/len(specials)]
		src := strings.ReplaceAll(f.src, "%s", sp)
		want := strings.ReplaceAll(f.want, "%s", sp)
		r.Eval()
		r.Trace()
		o := Render(c05.eng, src, map[string]any{"x": "X", "v": sp})
		r.Class("special-code-point/" + o.Class())
		if o.Panic != nil || o.Err != nil || o.Out != want {
			r.Violation("P3:special-code-point-altered", map[string]any{"template": strconv.Quote(src), "code_point": strconv.QuoteToASCII(sp)}, strconv.QuoteToASCII(want), strconv.QuoteToASCII(o.Out)+fmt.Sprint(" err=", o.Err))
		}
		// and the tokenizer still partitions the source
		c05Scan(r, src, "special code point")
	}})
	// a string value (and a raw body) is emitted exactly even when the NEIGHBOURING tag or object carries a
	// whitespace-control hyphen: hyphens act on the literal text next to a tag, never on what a value prints
	wsAlpha := []string{" ", "\n", "\t", "a"}
	nbForms := []struct{ src, want string }{
		{"[{{ v }}{{- x }}]", "[%vX]"}, {"[{{ x -}}{{ v }}]", "[X%v]"}, {"[{{ v }}{%- if true -%}{{ v }}{%- endif -%}{{ v }}]", "[%v%v%v]"},
		{"[{{ v }}{%- assign q = 1 -%}{{ v }}]", "[%v%v]"}, {"[{% raw %}%r{% endraw %}{{- x }}]", "[%vX]"}, {"[{{ x -}}{% raw %}%r{% endraw %}]", "[X%v]"},
		{"[{{- v -}}]", "[%v]"}, {"[ {{- v -}} ]", "[%v]"}, {"[{% for i in (1..2) -%}{{ v }}{%- endfor %}]", "[%v%v]"}, {"[{{ v | append: '' }}{{- x }}]", "[%vX]"},
		{"[{% capture c %}{{ v }}{% endcapture %}{{ c }}{{- x }}]", "[%vX]"},
	}
	fams = append(fams, explore.Family{Name: "value-next-to-a-hyphen", Count: seqCount(len(wsAlpha), 3) * int64(len(nbForms)), Run: func(i int64, r *explore.Rec) {
		f := nbForms[i%int64(len(nbForms))]
		v := joinSyms(wsAlpha, seqAt(len(wsAlpha), i/int64(len(nbForms))), "")
		src := strings.ReplaceAll(f.src, "%r", v)
		want := strings.ReplaceAll(f.want, "%v", v)
		r.Eval()
		r.Trace()
		o := Render(c05.eng, src, map[string]any{"v": v, "x": "X"})
		r.Class("value-by-hyphen/" + o.Class())
		if o.Panic != nil || o.Err != nil || o.Out != want {
			r.Violation("P6:value-emitted-exactly:next-to-hyphen", map[string]any{"template": src, "v": v}, strconv.Quote(want), o.String())
		}
	}})
	// two blocks in one template, every pair of spellings of their opening and end tags (blanks, tabs, newlines,
	// no padding, trim markers): each block ends at ITS OWN first end tag, whatever the other one looks like.
	// Bodies and the text between carry no whitespace at their edges, so trim markers have nothing to remove.
	spell := func(name string) []string {
		return []string{"{% " + name + " %}", "{%" + name + "%}", "{%- " + name + " -%}", "{%  " + name + "  %}", "{%\t" + name + "\t%}", "{%\n" + name + "\n%}", "{% " + name + "\n%}", "{%-" + name + " %}", "{% " + name + "-%}",
			// a document with CRLF line ends (or a form feed) where a tag wraps
			"{% " + name + "\r\n%}", "{%\r\n" + name + " %}", "{% " + name + "\f%}"}
	}
	tbBodies := []string{"", "a", "{{ y }}", "{% if %}", "}}", "{%", "{{", "%}x", "a b", "{% endif %}", "{% end", "é"}
	nSp := len(spell("raw"))
	fams = append(fams, explore.Family{Name: "two-blocks-all-tag-spellings", Count: int64(2 * nSp * nSp * nSp * len(tbBodies)), Run: func(i int64, r *explore.Rec) {
		rx := radix{i}
		b1, e2, e1, o1, kind := tbBodies[rx.next(len(tbBodies))], rx.next(nSp), rx.next(nSp), rx.next(nSp), []string{"raw", "comment"}[rx.next(2)]
		b2 := tbBodies[(int(i)+5)%len(tbBodies)]
		opens, ends := spell(kind), spell("end"+kind)
		src := "<" + opens[o1] + b1 + ends[e1] + "M{{ x }}N" + opens[(o1+e2)%nSp] + b2 + ends[e2] + ">"
		want := "<MXN>"
		if kind == "raw" {
			want = "<" + b1 + "MXN" + b2 + ">"
		}
		r.Eval()
		r.Trace()
		o := Render(c05.eng, src, map[string]any{"x": "X", "y": "Y"})
		r.Class("two-blocks/" + kind + "/" + o.Class())
		if o.Panic != nil || o.Err != nil || o.Out != want {
			r.Violation("P4:two-blocks:"+kind, map[string]any{"template": src}, strconv.Quote(want), o.String())
		}
	}})
	// blocks of BOTH kinds in one template - every sequence of two or three raw / comment blocks, every body of the
	// list above in each, at top level, inside a loop body that runs twice and inside a taken branch: each block ends at
	// the end tag of its OWN kind, whatever kind the blocks before it were
	var kindSeqs [][]string
	for n := 2; n <= 3; n++ {
		for m := 0; m < 1<<n; m++ {
			var ks []string
			for j := 0; j < n; j++ {
				ks = append(ks, []string{"raw", "comment"}[m>>j&1])
			}
			kindSeqs = append(kindSeqs, ks)
		}
	}
	mixWrap := []struct {
		pre, post string
		times     int
	}{{"", "", 1}, {"{% for q in (1..2) %}", "{% endfor %}", 2}, {"{% if x %}", "{% else %}no{% endif %}", 1}}
	nTb := len(tbBodies)
	fams = append(fams, explore.Family{Name: "blocks-of-both-kinds", Count: int64(len(kindSeqs) * len(mixWrap) * nTb * nTb * nTb), Run: func(i int64, r *explore.Rec) {
		rx := radix{i}
		ks, wr := kindSeqs[rx.next(len(kindSeqs))], mixWrap[rx.next(len(mixWrap))]
		bodies := []string{tbBodies[rx.next(nTb)], tbBodies[rx.next(nTb)], tbBodies[rx.next(nTb)]}
		if len(ks) == 2 && bodies[2] != tbBodies[0] {
			return // the third body is not used
		}
		seps := []string{"M{{ x }}N", "|", "."}
		var src, want strings.Builder
		for j, k := range ks {
			src.WriteString("{% " + k + " %}" + bodies[j] + "{% end" + k + " %}" + seps[j])
			if k == "raw" {
				want.WriteString(bodies[j])
			}
			want.WriteString(strings.Replace(seps[j], "{{ x }}", "X", 1))
		}
		full := "<" + wr.pre + src.String() + wr.post + ">"
		exp := "<" + strings.Repeat(want.String(), wr.times) + ">"
		r.Eval()
		r.Trace()
		o := Render(c05.eng, full, map[string]any{"x": "X", "y": "Y"})
		r.Class("both-kinds/" + strings.Join(ks, "+") + "/" + o.Class())
		if o.Panic != nil || o.Err != nil || o.Out != exp {
			r.Violation("P4:blocks-of-both-kinds:"+strings.Join(ks, "+"), map[string]any{"template": full}, strconv.Quote(exp), o.String())
		}
	}})
	// raw and comment bodies are opaque for EVERY engine of the process: an engine with the delimiters
	// [[ ]] [% %] and the default engine take turns on isomorphic bodies ({ } spelled [ ]), and the custom
	// engine also gets the default-spelled body, which is plain text for it.
	swap := strings.NewReplacer("{", "[", "}", "]")
	fams = append(fams, explore.Family{Name: "raw-and-comment-body-two-engines", Count: seqCount(K, Lr-1), Run: func(i int64, r *explore.Rec) {
		s := str(i)
		cs := swap.Replace(s)
		type tc struct {
			eng       *liquid.Engine
			src, want string
			key       string
		}
		for _, c := range []tc{
			{c05.alt, "[% raw %]" + cs + "[% endraw %]", cs, "P4:raw-body-verbatim:custom-delimiters"},
			{c05.eng, "{% raw %}" + s + "{% endraw %}", s, "P4:raw-body-verbatim:after-custom-engine"},
			{c05.alt, "[% comment %]" + cs + "[% endcomment %]MARK", "MARK", "P5:comment-body-ignored:custom-delimiters"},
			{c05.eng, "{% comment %}" + s + "{% endcomment %}MARK", "MARK", "P5:comment-body-ignored:after-custom-engine"},
			{c05.alt, "[% raw %]" + s + "[% endraw %]", s, "P4:raw-body-verbatim:default-spelling-in-custom-engine"},
		} {
			r.Eval()
			o := Render(c.eng, c.src, map[string]any{})
			r.Class("two-engines/" + o.Class())
			if o.Panic != nil || o.Err != nil || o.Out != c.want {
				r.Violation(c.key, map[string]any{"template": c.src, "custom_delimiters": c.eng == c05.alt}, strconv.Quote(c.want), o.String())
			}
		}
	}})
	// comment bodies with syntax errors, unknown tags, unbalanced blocks, failing filters and evaluation probes
	lexN := 3
	if tier == "thorough" {
		lexN = 4
	}
	lex := append(append([]string{}, sigmaLex...), "{{ p | probe }}", "{{ 1 | fail }}", "{% endfor %}", "{% nosuchtag %}", "{% if %}", "{% assign zz = p | probe %}", "{% raw %}", "{% endraw %}", "{% comment %}")
	fams = append(fams, explore.Family{Name: "comment-body-lex", Count: seqCount(len(lex), lexN), Run: func(i int64, r *explore.Rec) {
		s := joinSyms(lex, seqAt(len(lex), i), "")
		if strings.Contains(s, "endcomment") {
			return
		}
		src := "A{% comment %}" + s + "{% endcomment %}MARK{{ zz }}"
		c05.calls = 0
		r.Eval()
		o := Render(c05.eng, src, map[string]any{"p": countingDrop{}})
		r.Class("comment-lex/" + o.Class())
		if o.Panic != nil || o.Err != nil || o.Out != "AMARK" {
			r.Violation(c05BodyKey("P5:comment-body-ignored", src, "endcomment"), map[string]any{"template": src}, `"AMARK"`, o.String())
		} else if c05.calls != 0 {
			r.Violation("P5:comment-body-evaluated", map[string]any{"template": src}, "no evaluation inside a comment", fmt.Sprintf("%d probe calls", c05.calls))
		}
	}})
	// string values
	valAlpha := append(append([]string{}, sigmaStr...), "\x00", "\xff", "{{", "%}", "{", "}", "-")
	Lv := 3
	if tier == "thorough" {
		Lv = 4
	}
	fams = append(fams, explore.Family{Name: "string-value", Count: seqCount(len(valAlpha), Lv), Run: func(i int64, r *explore.Rec) {
		s := joinSyms(valAlpha, seqAt(len(valAlpha), i), "")
		ps := s
		for name, v := range map[string]any{"string": s, "[]byte": []byte(s), "*string": &ps} {
			for _, src := range []string{"{{ v }}", `{{ v | append: "" }}`, "{% assign w = v %}{{ w }}", "{% capture w %}{{ v }}{% endcapture %}{{ w }}", "{{ l[0] }}{{ m.k }}"} {
				if name == "*string" && strings.Contains(src, "append") {
					continue // pointers are promised for variable/property lookup only
				}
				r.Eval()
				o := Render(c05.eng, src, map[string]any{"v": v, "l": []any{v}, "m": map[string]any{"k": ""}})
				if o.Panic != nil || o.Err != nil || o.Out != s {
					r.Violation("P6:string-value-verbatim:"+name, map[string]any{"template": src, "v": s, "representation": name}, strconv.Quote(s), o.String())
				}
			}
		}
		r.Class("value/" + strconv.Itoa(len(s)))
	}})
	// the routes again, over the NAMES a route binds the value to (every identifier form of the expression
	// language: with '-', '_', digits, a trailing '?', words of the vocabulary) next to neighbours whose names
	// are prefixes / extensions of it and must keep their own values
	rtNames := []string{"w", "ok?", "my-var", "_a", "a1", "x_y?", "w2", "if", "end", "capture", "a-b-c", "A", "w?"}
	rtForms := []string{"{% capture NAME %}{{ v }}{% endcapture %}{{ NAME }}", "{% assign NAME = v %}{{ NAME }}", "{% capture NAME %}{{ v }}{% endcapture %}{% assign q = NAME %}{{ q }}",
		"{% capture NAME %}{{ v }}{% endcapture %}{{ NAME | append: '' }}", "{% for NAME in l %}{{ NAME }}{% endfor %}", "{% capture NAME %}{{ v }}{% endcapture %}{% capture z %}{{ NAME }}{% endcapture %}{{ z }}",
		"{%- capture NAME -%}{{ v }}{%- endcapture -%}{{ NAME }}", "{% assign NAME = v | append: '' %}{{ NAME | default: 'lost' }}", "{% capture NAME %}{{ v }}{% endcapture %}{{ NAME | default: 'lost' }}"}
	rtVals := []string{"s", "a b", " {{ x }} ", "line\nline", "é-'\"", "}}%}"}
	fams = append(fams, explore.Family{Name: "string-value-routes-by-variable-name", Count: int64(len(rtNames) * len(rtForms) * len(rtVals)), Run: func(i int64, r *explore.Rec) {
		rx := radix{i}
		val, form, name := rtVals[rx.next(len(rtVals))], rtForms[rx.next(len(rtForms))], rtNames[rx.next(len(rtNames))]
		stem := strings.TrimSuffix(name, "?")
		// neighbours: the name without its '?', with one more character, its first character
		nb := []string{stem, stem + "x", stem + "_", stem[:1]}
		src := strings.ReplaceAll(form, "NAME", name)
		bind := map[string]any{"v": val, "l": []any{val}}
		want := val
		for _, n := range nb {
			if n != name && n != "v" && n != "l" && n != "q" && n != "z" {
				bind[n] = "<" + n + ">"
				src += "|{{ " + n + " }}"
				want += "|<" + n + ">"
			}
		}
		r.Eval()
		o := Render(c05.eng, src, bind)
		r.Class("route-name/" + o.Class())
		if o.Panic != nil || o.Err != nil || o.Out != want {
			r.Violation("P6:string-value-verbatim:route-by-name", map[string]any{"template": src, "v": val, "name": name}, strconv.Quote(want), o.String())
		}
	}})
	fams = append(fams, explore.Family{Name: "string-value-char-alphabet", Count: seqCount(K, 5), Run: func(i int64, r *explore.Rec) {
		s := str(i)
		r.Eval()
		o := Render(c05.eng, "{{ v }}|{{ v | append: w }}", map[string]any{"v": s, "w": ""})
		r.Class("value-char")
		if o.Panic != nil || o.Err != nil || o.Out != s+"|"+s {
			r.Violation("P6:string-value-verbatim:string", map[string]any{"template": "{{ v }}|{{ v | append: w }}", "v": s}, strconv.Quote(s+"|"+s), o.String())
		}
	}})
	// scaled family: every string of length <=3 repeated 2^k times
	reps := []int{16, 256, 4096, 16384}
	fams = append(fams, explore.Family{Name: "scaled", Count: seqCount(K, 3) * int64(len(reps)), Run: func(i int64, r *explore.Rec) {
		unit := str(i / int64(len(reps)))
		if unit == "" {
			return
		}
		s := strings.Repeat(unit, reps[i%int64(len(reps))])
		if !c05Scan(r, s, "scaled") {
			return
		}
		if onlyText(s) {
			r.Eval()
			o := Render(c05.eng, s, map[string]any{})
			if o.Panic != nil || o.Err != nil || o.Out != s {
				r.Violation("P3:text-renders-to-itself", map[string]any{"source_unit": unit, "repeat": reps[i%int64(len(reps))]}, "the input", trunc80(o.String()))
			}
		}
		r.Eval()
		o := Render(c05.eng, "{{ v }}", map[string]any{"v": s})
		if o.Out != s {
			r.Violation("P6:string-value-verbatim:string", map[string]any{"v_unit": unit, "repeat": reps[i%int64(len(reps))]}, "the value", trunc80(o.String()))
		}
		r.Class("scaled")
	}})
	return fams
}

// c05BodyKey: when the block's end tag is not a token of its own (tag- or object-like text that
// opened inside the body extends over it) the failure is the known tokenizer limitation; any other
// failure keeps a key of its own.
func c05BodyKey(law, src, endTag string) string {
	for _, t := range parser.Scan(src, parser.SourceLoc{}, nil) {
		if t.Type == parser.TagTokenType && t.Name == endTag {
			return law
		}
	}
	return law + ":end-tag-swallowed-by-unclosed-delimiter-in-body"
}

// c05Shape classifies a body by the delimiter-like fragments it contains (violation key).
func c05Shape(s string) string {
	var parts []string
	for _, f := range []string{"{{", "}}", "{%", "%}"} {
		if strings.Contains(s, f) {
			parts = append(parts, f)
		}
	}
	return strings.Join(parts, "")
}

type countingDrop struct{}

func (countingDrop) ToLiquid() any { c05.calls++; return "dropvalue" }

func init() {
	explore.Register(&explore.Prop{
		ID:    "C05",
		Level: "exploration",
		Rule: "all strings of length <=6 (quick) / <=8 (thorough) over the 8-character alphabet { % } - \" space newline a used as (1) whole source through parser.Scan at start lines 0/1/7 and through ParseAndRender, (2) raw body in three spellings, (3) comment body; every sequence of two or three raw/comment blocks of both kinds x 12 bodies each x {top level, loop body run twice, taken branch}; " +
			"comment bodies from all sequences of <=3|4 lexical fragments incl. failing/probing constructs; all strings of length <=3|4 over a 19-symbol value alphabet (multi-byte, NUL, 0xFF, delimiter look-alikes) as string, []byte and *string values in five positions; every string of length <=3 repeated 16..16384 times; " +
			"laws: partition, line numbers, text-only identity, raw verbatim, comment inert and unevaluated, value verbatim; class = token-kind sequence of the source (first 6 tokens) / outcome kind",
		Assumptions: []string{"64 KiB inputs are represented by the scaled family only (repetitions of every string of length <=3)"},
		Setup: func(string) {
			c05.eng = liquid.NewEngine()
			c05.eng.RegisterFilter("probe", func(v any) any { c05.calls++; return v })
			c05.eng.RegisterFilter("fail", func(v any) (any, error) { c05.calls++; return nil, fmt.Errorf("fail filter evaluated") })
			c05.alt = liquid.NewEngine().Delims("[[", "]]", "[%", "%]")
		},
		Families: c05Families,
		Bound: func(tier string) string {
			if tier == "thorough" {
				return "strings <=8 over 8 characters (19.2 M) as source; <=7 as raw/comment bodies"
			}
			return "strings <=6 over 8 characters (299 593) as source; <=5 as raw/comment bodies"
		},
	})
}
