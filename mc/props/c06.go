package props

import (
	"fmt"
	"regexp"
	"strconv"
	"strings"

	"github.com/osteele/liquid"
	"github.com/osteele/liquid/render"
	"verifmc/explore"
)

// C06 — a template is accepted iff its block tags are properly nested and closed.

type c06Sym struct {
	name  string // block/clause name, or "text", "object", "assign"
	kind  string // open | clause | end | leaf
	src   string
	block string // for end tags: the block they close
	taken bool   // openers: the main body is taken; clauses: the clause's own condition holds
}

var c06Alpha = func() []c06Sym {
	out := []c06Sym{
		{"text", "leaf", "", "", false},
		{"object", "leaf", `{{ "O;" }}`, "", false},
		{"assign", "leaf", "{% assign z = 1 %}", "", false},
	}
	opens := []struct{ n, args string }{{"if", "true"}, {"unless", "false"}, {"case", "1"}, {"for", "i in (1..1)"}, {"tablerow", "i in (1..1)"}, {"capture", "c"}, {"comment", ""}, {"raw", ""}}
	for _, o := range opens {
		out = append(out, c06Sym{o.n, "open", strings.TrimSpace("{% "+o.n+" "+o.args) + " %}", "", true})
	}
	out = append(out, c06Sym{"else", "clause", "{% else %}", "", true}, c06Sym{"elsif", "clause", "{% elsif true %}", "", true}, c06Sym{"when", "clause", "{% when 1 %}", "", true})
	for _, o := range opens {
		out = append(out, c06Sym{"end" + o.n, "end", "{% end" + o.n + " %}", o.n, false})
	}
	return out
}()

var c06Admits = map[string]map[string]bool{
	"if": {"else": true, "elsif": true}, "unless": {"else": true}, "case": {"when": true, "else": true}, "for": {"else": true},
	"tablerow": {}, "capture": {},
}

// model tree
type c06Node struct {
	taken   bool
	label   string // T<k>; | O | A | block name | RAW
	body    []*c06Node
	clauses []*c06Node // label = clause name
	raw     string
}

type c06Verdict struct {
	accept bool
	root   []*c06Node
	state  string // canonical PDA state at end of input
}

func c06Model(seq []int) c06Verdict {
	syms := make([]c06Sym, len(seq))
	for i, si := range seq {
		syms[i] = c06Alpha[si]
	}
	return c06ModelSyms(syms)
}

func c06ModelSyms(seq []c06Sym) c06Verdict {
	type frame struct {
		node *c06Node
		ap   *[]*c06Node
	}
	root := &c06Node{label: "root"}
	ap := &root.body
	var stack []frame
	var cur *c06Node
	mode := ""
	var rawNode *c06Node
	st := func() string {
		var names []string
		for _, f := range stack[min(1, len(stack)):] {
			_ = f
		}
		for i := range stack {
			if i+1 < len(stack) {
				names = append(names, stack[i+1].node.label)
			}
		}
		if cur != nil {
			names = append(names, cur.label)
		}
		return strings.Join(names, ">") + "|" + mode
	}
	for k, sym := range seq {
		src := sym.src
		if sym.name == "text" {
			src = "T" + strconv.Itoa(k) + ";"
		}
		switch {
		case mode == "comment":
			if sym.name == "endcomment" {
				mode = ""
			}
			continue
		case mode == "raw":
			if sym.name == "endraw" {
				mode = ""
			} else {
				rawNode.raw += src
			}
			continue
		}
		switch sym.kind {
		case "leaf":
			l := map[string]string{"text": src, "object": "O", "assign": "A"}[sym.name]
			*ap = append(*ap, &c06Node{label: l})
		case "open":
			switch sym.name {
			case "comment":
				mode = "comment"
			case "raw":
				mode = "raw"
				rawNode = &c06Node{label: "RAW"}
				*ap = append(*ap, rawNode)
			default:
				n := &c06Node{label: sym.name, taken: sym.taken}
				*ap = append(*ap, n)
				stack = append(stack, frame{cur, ap})
				cur = n
				ap = &n.body
			}
		case "clause":
			if cur == nil || !c06Admits[cur.label][sym.name] {
				return c06Verdict{accept: false, state: "reject"}
			}
			c := &c06Node{label: sym.name, taken: sym.taken}
			cur.clauses = append(cur.clauses, c)
			ap = &c.body
		case "end":
			if cur == nil || cur.label != sym.block {
				return c06Verdict{accept: false, state: "reject"}
			}
			f := stack[len(stack)-1]
			stack = stack[:len(stack)-1]
			cur, ap = f.node, f.ap
		}
	}
	s := st()
	if cur != nil || mode != "" {
		return c06Verdict{accept: false, state: s}
	}
	return c06Verdict{accept: true, root: root.body, state: s}
}

func min(a, b int) int {
	if a < b {
		return a
	}
	return b
}

func c06Shape(ns []*c06Node) string {
	var sb strings.Builder
	for _, n := range ns {
		switch {
		case n.label == "RAW":
			sb.WriteString("RAW ")
		case n.clauses == nil && n.body == nil && c06Admits[n.label] == nil:
			sb.WriteString(n.label + " ")
		default:
			sb.WriteString(n.label + "(" + c06Shape(n.body))
			for _, c := range n.clauses {
				sb.WriteString("/" + c.label + ":" + c06Shape(c.body))
			}
			sb.WriteString(") ")
		}
	}
	return sb.String()
}

// c06ImplShape reads the parsed tree through the exported fields.
func c06ImplShape(ns []render.Node) string {
	var sb strings.Builder
	for _, n := range ns {
		switch x := n.(type) {
		case *render.TextNode:
			sb.WriteString(x.Source + " ")
		case *render.ObjectNode:
			sb.WriteString("O ")
		case *render.TagNode:
			sb.WriteString("A ")
		case *render.RawNode:
			sb.WriteString("RAW ")
		case *render.BlockNode:
			sb.WriteString(x.Name + "(" + c06ImplShape(x.Body))
			for _, c := range x.Clauses {
				sb.WriteString("/" + c.Name + ":" + c06ImplShape(c.Body))
			}
			sb.WriteString(") ")
		case *render.SeqNode:
			sb.WriteString(c06ImplShape(x.Children))
		default:
			sb.WriteString(fmt.Sprintf("?%T ", n))
		}
	}
	return sb.String()
}

// expected rendering; ok=false when the texts leave it open
func c06Render(ns []*c06Node) (out string, ok bool) {
	ok = true
	var sb strings.Builder
	for _, n := range ns {
		sub := func(b []*c06Node) {
			s, k := c06Render(b)
			sb.WriteString(s)
			ok = ok && k
		}
		// a clause after an else, or a second else: order semantics are not stated
		seenElse := false
		for _, c := range n.clauses {
			if seenElse {
				ok = false
			}
			if c.label == "else" {
				seenElse = true
			}
		}
		switch n.label {
		case "O":
			sb.WriteString("O;")
		case "A":
		case "RAW":
			sb.WriteString(n.raw)
		case "if", "unless", "for", "tablerow", "case":
			if n.label == "case" && len(n.body) > 0 {
				ok = false // content between case and the first when: not defined
			}
			chosen := false
			if n.label != "case" && n.taken {
				chosen = true
				sub(n.body)
			} else if _, k := c06Render(n.body); !k {
				ok = false
			}
			for _, c := range n.clauses {
				if !chosen && c.taken {
					chosen = true
					sub(c.body)
				} else if _, k := c06Render(c.body); !k {
					ok = false // clause bodies that are not taken must still be well-defined
				}
			}
		case "capture":
			if _, k := c06Render(n.body); !k {
				ok = false
			}
		default:
			sb.WriteString(n.label) // text marker
		}
	}
	return sb.String(), ok
}

var c06 struct{ eng *liquid.Engine }

func c06Families(tier string) []explore.Family {
	N := 5
	if tier == "thorough" {
		N = 6
	}
	K := len(c06Alpha)
	return []explore.Family{c06SemFamily(tier), c06DeepFamily(), c06ClauseScaleFamily(), c06EnginesFamily(), c06NamesFamily(), c06SpellingFamily(tier), c06TwoOpaqueBlocksFamily(), c06WhitespaceBodiesFamily(), c06TagArgumentsFamily(), {Name: fmt.Sprintf("token-sequences<=%d", N), Count: seqCount(K, N), Run: func(i int64, r *explore.Rec) {
		seq := seqAt(K, i)
		var sb strings.Builder
		for k, si := range seq {
			if c06Alpha[si].name == "text" {
				sb.WriteString("T" + strconv.Itoa(k) + ";")
			} else {
				sb.WriteString(c06Alpha[si].src)
			}
		}
		src := sb.String()
		v := c06Model(seq)
		r.Eval()
		r.Transition()
		r.Trace()
		r.State(v.state)
		var tpl *liquid.Template
		var err liquid.SourceError
		if p := explore.Safe(func() { tpl, err = c06.eng.ParseTemplate([]byte(src)) }); p != nil {
			r.Violation(p.Key(), map[string]any{"template": src}, "accept or reject", p.Value)
			return
		}
		desc := func() any { return map[string]any{"template": src} }
		if (err == nil) != v.accept {
			exp, obs := "rejected (blocks not properly nested/closed)", "accepted"
			if v.accept {
				exp, obs = "accepted", "rejected: "+safeErr(err)
			}
			r.Violation("A1:accept-reject:"+c06Why(seq, v), desc(), exp, obs)
			return
		}
		if err != nil {
			r.Class("reject")
			if tpl != nil {
				r.Violation("A1:template-with-error", desc(), "nil template", "non-nil")
			}
			return
		}
		r.Class("accept")
		// (A2) tree mirrors nesting
		// adjacent text tokens are one text node: compare modulo the separator between text markers
		norm := func(s string) string { return strings.ReplaceAll(s, "; T", ";T") }
		want := norm(c06Shape(v.root))
		got := norm(c06ImplShape([]render.Node{tpl.GetRoot()}))
		if got != want {
			r.Violation("A2:tree-shape", desc(), want, got)
			return
		}
		// (A3) rendering shows exactly the markers on taken paths
		if exp, ok := c06Render(v.root); ok {
			r.Eval()
			var out []byte
			var rerr liquid.SourceError
			if p := explore.Safe(func() { out, rerr = tpl.Render(map[string]any{}) }); p != nil {
				r.Violation(p.Key(), desc(), exp, p.Value)
				return
			}
			got := c12TableTags.ReplaceAllString(string(out), "")
			if rerr != nil || got != exp {
				r.Violation("A3:rendered-markers", desc(), strconv.Quote(exp), fmt.Sprintf("%q err=%v", got, rerr))
			}
		}
		if r.WantSample() {
			r.Sample(map[string]any{"template": src, "model_state": v.state, "accepted": v.accept})
		}
	}}}
}

// ---- second family: every viable (never-rejected) prefix walk over a semantic alphabet in which
// conditions may be false, so that clause bodies are the taken paths: catches content attached under
// the wrong clause even when acceptance is right.

var c06Sem = []c06Sym{
	{"text", "leaf", "", "", false},
	{"if", "open", "{% if true %}", "", true},
	{"if", "open", "{% if false %}", "", false},
	{"unless", "open", "{% unless true %}", "", false},
	{"case", "open", "{% case 1 %}", "", false},
	{"for", "open", "{% for i in (1..1) %}", "", true},
	{"for", "open", "{% for i in (1..0) %}", "", false},
	{"capture", "open", "{% capture c %}", "", true},
	{"else", "clause", "{% else %}", "", true},
	{"elsif", "clause", "{% elsif true %}", "", true},
	{"elsif", "clause", "{% elsif false %}", "", false},
	{"when", "clause", "{% when 1 %}", "", true},
	{"when", "clause", "{% when 2 %}", "", false},
	{"endif", "end", "{% endif %}", "if", false},
	{"endunless", "end", "{% endunless %}", "unless", false},
	{"endcase", "end", "{% endcase %}", "case", false},
	{"endfor", "end", "{% endfor %}", "for", false},
	{"endcapture", "end", "{% endcapture %}", "capture", false},
}

// c06Walk enumerates depth-first every sequence of <=maxLen symbols of c06Sem whose every prefix is
// viable (the model has not rejected it) and calls visit on the accepted ones.
func c06Walk(prefix []c06Sym, maxLen int, visit func(seq []c06Sym, v c06Verdict)) {
	v := c06ModelSyms(prefix)
	if v.state == "reject" {
		return
	}
	if v.accept && len(prefix) > 0 {
		visit(prefix, v)
	}
	if len(prefix) >= maxLen {
		return
	}
	for _, sym := range c06Sem {
		c06Walk(append(append([]c06Sym{}, prefix...), sym), maxLen, visit)
	}
}

func c06SemFamily(tier string) explore.Family {
	maxLen := 6
	if tier == "thorough" {
		maxLen = 8
	}
	K := len(c06Sem)
	return explore.Family{Name: fmt.Sprintf("well-nested-with-false-conditions<=%d", maxLen), Count: int64(K * K), Run: func(i int64, r *explore.Rec) {
		first := []c06Sym{c06Sem[int(i)/K], c06Sem[int(i)%K]}
		if int(i)%K == 0 && int(i)/K == 0 {
			// the single-symbol sequences belong to shard (0,0)
			for _, sym := range c06Sem {
				c06Walk([]c06Sym{sym}, 1, func(seq []c06Sym, v c06Verdict) { c06CheckAccepted(r, seq, v) })
			}
		}
		c06Walk(first, maxLen, func(seq []c06Sym, v c06Verdict) {
			explore.Heartbeat()
			c06CheckAccepted(r, seq, v)
		})
	}}
}

func c06CheckAccepted(r *explore.Rec, seq []c06Sym, v c06Verdict) {
	var sb strings.Builder
	for k, sym := range seq {
		if sym.name == "text" {
			sb.WriteString("T" + strconv.Itoa(k) + ";")
		} else {
			sb.WriteString(sym.src)
		}
	}
	src := sb.String()
	r.Eval()
	r.Transition()
	r.Trace()
	r.State("sem:" + v.state)
	desc := func() any { return map[string]any{"template": src} }
	var tpl *liquid.Template
	var err liquid.SourceError
	if p := explore.Safe(func() { tpl, err = c06.eng.ParseTemplate([]byte(src)) }); p != nil {
		r.Violation(p.Key(), desc(), "accepted", p.Value)
		return
	}
	if err != nil {
		r.Violation("A1:accept-reject:well-nested-rejected", desc(), "accepted", "rejected: "+safeErr(err))
		return
	}
	norm := func(s string) string { return strings.ReplaceAll(s, "; T", ";T") }
	if want, got := norm(c06Shape(v.root)), norm(c06ImplShape([]render.Node{tpl.GetRoot()})); got != want {
		r.Violation("A2:tree-shape", desc(), want, got)
		return
	}
	exp, ok := c06Render(v.root)
	if !ok {
		r.Class("sem/accepted/render-unspecified")
		return
	}
	var out []byte
	var rerr liquid.SourceError
	if p := explore.Safe(func() { out, rerr = tpl.Render(map[string]any{}) }); p != nil {
		r.Violation(p.Key(), desc(), exp, p.Value)
		return
	}
	r.Class("sem/accepted/rendered")
	out = []byte(c12TableTags.ReplaceAllString(string(out), "")) // tablerow decoration is not compared
	if rerr != nil || string(out) != exp {
		r.Violation("A3:rendered-markers", desc(), strconv.Quote(exp), fmt.Sprintf("%q err=%v", out, rerr))
	}
	if r.WantSample() {
		r.Sample(map[string]any{"template": src, "rendered": string(out)})
	}
}

// ---- third family: deep nesting (depth 1..40) and its one-edit neighbourhood, enumerated deterministically

func c06DeepFamily() explore.Family {
	kinds := []string{"if", "unless", "case", "for", "tablerow", "capture"}
	open := func(k string) []c06Sym {
		switch k {
		case "if":
			return []c06Sym{{"if", "open", "{% if true %}", "", true}}
		case "unless":
			return []c06Sym{{"unless", "open", "{% unless false %}", "", true}}
		case "case":
			return []c06Sym{{"case", "open", "{% case 1 %}", "", false}, {"when", "clause", "{% when 1 %}", "", true}}
		case "for":
			return []c06Sym{{"for", "open", "{% for i in (1..1) %}", "", true}}
		case "tablerow":
			return []c06Sym{{"tablerow", "open", "{% tablerow i in (1..1) %}", "", true}}
		}
		return []c06Sym{{"capture", "open", "{% capture c %}", "", true}}
	}
	end := func(k string) c06Sym { return c06Sym{"end" + k, "end", "{% end" + k + " %}", k, false} }
	text := c06Sym{"text", "leaf", "", "", false}
	const maxD = 40
	// patterns: 6 homogeneous + 1 alternating; depth 1..40; edit kinds: none, drop end j, swap ends j/j+1, retag end j, stray else at level j
	type job struct{ pattern, depth, edit, at int }
	var jobs []job
	for p := 0; p <= len(kinds); p++ {
		for d := 1; d <= maxD; d++ {
			jobs = append(jobs, job{p, d, 0, 0})
			for j := 0; j < d; j++ {
				jobs = append(jobs, job{p, d, 1, j}, job{p, d, 3, j}, job{p, d, 4, j})
				if j+1 < d {
					jobs = append(jobs, job{p, d, 2, j})
				}
			}
		}
	}
	return explore.Family{Name: "deep-nesting-1..40-and-one-edit", Count: int64(len(jobs)), Run: func(i int64, r *explore.Rec) {
		jb := jobs[i]
		kindAt := func(level int) string {
			if jb.pattern < len(kinds) {
				return kinds[jb.pattern]
			}
			return kinds[level%len(kinds)]
		}
		var seq []c06Sym
		for l := 0; l < jb.depth; l++ {
			seq = append(seq, open(kindAt(l))...)
			seq = append(seq, text)
			if jb.edit == 4 && l == jb.at {
				seq = append(seq, c06Sym{"elsif", "clause", "{% elsif true %}", "", true}) // legal only directly inside if
			}
		}
		ends := make([]c06Sym, 0, jb.depth)
		for l := jb.depth - 1; l >= 0; l-- {
			ends = append(ends, end(kindAt(l)))
		}
		switch jb.edit {
		case 1:
			ends = append(ends[:jb.at], ends[jb.at+1:]...)
		case 2:
			ends[jb.at], ends[jb.at+1] = ends[jb.at+1], ends[jb.at]
		case 3:
			k := ends[jb.at].block
			other := kinds[(indexOf(kinds, k)+1)%len(kinds)]
			ends[jb.at] = end(other)
		}
		for _, e := range ends {
			seq = append(seq, e, text)
		}
		v := c06ModelSyms(seq)
		var sb strings.Builder
		for k, sym := range seq {
			if sym.name == "text" {
				sb.WriteString("T" + strconv.Itoa(k) + ";")
			} else {
				sb.WriteString(sym.src)
			}
		}
		src := sb.String()
		if v.accept {
			c06CheckAccepted(r, seq, v)
			return
		}
		r.Eval()
		r.Transition()
		r.Trace()
		r.State("deep:" + fmt.Sprint(jb.edit))
		var tpl *liquid.Template
		var err liquid.SourceError
		if p := explore.Safe(func() { tpl, err = c06.eng.ParseTemplate([]byte(src)) }); p != nil {
			r.Violation(p.Key(), map[string]any{"template": trunc80(src), "depth": jb.depth}, "rejected", p.Value)
			return
		}
		r.Class("deep/reject")
		if err == nil || tpl != nil {
			r.Violation("A1:accept-reject:"+c06Why(nil, v), map[string]any{"template": src, "depth": jb.depth, "edit": jb.edit, "at": jb.at}, "rejected", "accepted")
		}
	}}
}

// ---- fourth family: clauses at scale. Nesting depth 1..40 with a clause on EVERY level, and blocks that
// hold 1..40 closed sibling blocks before their clause; conditions true, false and alternating, so that the
// clause bodies are the taken paths. Tree shape and rendered markers are compared as in the small family.
func c06ClauseScaleFamily() explore.Family {
	sym := func(src string) c06Sym {
		for _, y := range c06Sem {
			if y.src == src {
				return y
			}
		}
		panic("harness: no symbol " + src)
	}
	text := c06Sem[0]
	type shape struct {
		name              string
		openT, openF      c06Sym // opener whose main body is taken / not taken
		clauses           []c06Sym
		end               c06Sym
		bodyBeforeClauses bool
	}
	shapes := []shape{
		{"if-else", sym("{% if true %}"), sym("{% if false %}"), []c06Sym{sym("{% else %}")}, sym("{% endif %}"), true},
		{"if-elsif-else", sym("{% if true %}"), sym("{% if false %}"), []c06Sym{sym("{% elsif false %}"), sym("{% elsif true %}"), sym("{% else %}")}, sym("{% endif %}"), true},
		{"unless-else", sym("{% unless true %}"), sym("{% unless true %}"), []c06Sym{sym("{% else %}")}, sym("{% endunless %}"), true},
		{"case-when-else", sym("{% case 1 %}"), sym("{% case 1 %}"), []c06Sym{sym("{% when 2 %}"), sym("{% when 1 %}"), sym("{% else %}")}, sym("{% endcase %}"), false},
		{"for-else", sym("{% for i in (1..1) %}"), sym("{% for i in (1..0) %}"), []c06Sym{sym("{% else %}")}, sym("{% endfor %}"), true},
	}
	const maxN = 40
	type job struct{ shape, n, cond, layout int } // cond: 0 all taken, 1 none taken, 2 alternating; layout: 0 deep, 1 wide-inside, 2 wide-before
	var jobs []job
	for sh := range shapes {
		for n := 1; n <= maxN; n++ {
			for cond := 0; cond < 3; cond++ {
				for layout := 0; layout < 3; layout++ {
					jobs = append(jobs, job{sh, n, cond, layout})
				}
			}
		}
	}
	return explore.Family{Name: "clauses-at-depth-and-width-1..40", Count: int64(len(jobs)), Run: func(i int64, r *explore.Rec) {
		jb := jobs[i]
		sh := shapes[jb.shape]
		opener := func(level int) c06Sym {
			if jb.cond == 0 || (jb.cond == 2 && level%2 == 0) {
				return sh.openT
			}
			return sh.openF
		}
		// block(level, inner): opener, [text, inner, text], then every clause with text (the inner part goes
		// into the main body, or into the first clause when the shape has no body before its clauses)
		var block func(level int, inner []c06Sym, innerInClause int) []c06Sym
		block = func(level int, inner []c06Sym, innerInClause int) []c06Sym {
			seq := []c06Sym{opener(level)}
			if sh.bodyBeforeClauses {
				seq = append(seq, text)
				if innerInClause < 0 {
					seq = append(seq, inner...)
					seq = append(seq, text)
				}
			}
			for k, c := range sh.clauses {
				seq = append(seq, c, text)
				if k == innerInClause || (!sh.bodyBeforeClauses && innerInClause < 0 && k == 0) {
					seq = append(seq, inner...)
					seq = append(seq, text)
				}
			}
			return append(seq, sh.end)
		}
		var seq []c06Sym
		switch jb.layout {
		case 0: // deep: n levels, the inner block sits alternately in the main body and in the last clause
			var inner []c06Sym
			for l := jb.n - 1; l >= 0; l-- {
				where := -1
				if l%2 == 1 {
					where = len(sh.clauses) - 1
				}
				inner = block(l, inner, where)
			}
			seq = inner
		case 1: // wide inside: n closed sibling blocks in the main body, then the clauses
			var sib []c06Sym
			for k := 0; k < jb.n; k++ {
				sib = append(sib, block(k+1, nil, -1)...)
			}
			seq = block(0, sib, -1)
		default: // wide before: n closed siblings at top level, then a block with clauses that holds one more
			for k := 0; k < jb.n; k++ {
				seq = append(seq, block(k+1, nil, -1)...)
			}
			seq = append(seq, block(0, block(1, nil, -1), len(sh.clauses)-1)...)
		}
		v := c06ModelSyms(seq)
		if !v.accept {
			panic(fmt.Sprintf("harness: clause-scale sequence not accepted by the model: shape %s n %d layout %d", sh.name, jb.n, jb.layout))
		}
		c06CheckAccepted(r, seq, v)
		r.Class(fmt.Sprintf("clause-scale/%s/layout%d", sh.name, jb.layout))
	}}
}

// ---- fifth family: block and tag definitions belong to the engine they were registered on. Three engines
// (A: block boxa + tag taga; B: another boxa, no taga; C: neither) parse the same sources in turn in one
// process: accept/reject and the rendered text must follow each engine's own grammar.
func c06EnginesFamily() explore.Family {
	mk := func(tag string, box, leaf bool) *liquid.Engine {
		e := liquid.NewEngine()
		if box {
			e.RegisterBlock("boxa", func(c render.Context) (string, error) {
				s, err := c.InnerString()
				return tag + "[" + s + "]", err
			})
		}
		if leaf {
			e.RegisterTag("taga", func(c render.Context) (string, error) { return tag + "!", nil })
		}
		return e
	}
	engines := []struct {
		tag       string
		e         *liquid.Engine
		box, leaf bool
	}{{"A", mk("A", true, true), true, true}, {"B", mk("B", true, false), true, false}, {"C", mk("C", false, false), false, false}}
	type src struct {
		text               string
		needsBox, needsTag bool
		render             func(tag string) string
		never              bool // rejected by every engine
	}
	srcs := []src{
		{"{% boxa %}x{% endboxa %}", true, false, func(t string) string { return t + "[x]" }, false},
		{"{% taga %}", false, true, func(t string) string { return t + "!" }, false},
		{"{% boxa %}{% taga %}{% endboxa %}", true, true, func(t string) string { return t + "[" + t + "!]" }, false},
		{"{% if true %}{% boxa %}y{% endboxa %}{% endif %}z", true, false, func(t string) string { return t + "[y]z" }, false},
		{"{% boxa %}{% if true %}q{% endif %}{% endboxa %}", true, false, func(t string) string { return t + "[q]" }, false},
		{"{% for i in (1..2) %}{% taga %}{% endfor %}", false, true, func(t string) string { return t + "!" + t + "!" }, false},
		{"plain {{ 1 }}", false, false, func(t string) string { return "plain 1" }, false},
		{"{% endboxa %}", true, false, nil, true},
		{"{% boxa %}x", true, false, nil, true},
		{"{% boxa %}{% if true %}{% endboxa %}{% endif %}", true, false, nil, true},
	}
	orders := [][]int{{0, 1, 2, 0}, {1, 0, 2, 1}, {2, 1, 0, 2}, {2, 0, 1, 0}}
	return explore.Family{Name: "grammar-belongs-to-its-engine", Count: int64(len(srcs) * len(orders)), Run: func(i int64, r *explore.Rec) {
		sc, ord := srcs[int(i)/len(orders)], orders[int(i)%len(orders)]
		for step, ei := range ord {
			en := engines[ei]
			r.Eval()
			r.Transition()
			r.Trace()
			o := Render(en.e, sc.text, map[string]any{})
			accept := !sc.never && (!sc.needsBox || en.box) && (!sc.needsTag || en.leaf)
			desc := map[string]any{"template": sc.text, "engine": en.tag, "step": step, "engine_order": fmt.Sprint(ord)}
			switch {
			case o.Panic != nil:
				r.Violation("grammar-crosses-engines:panic", desc, "accepted or rejected", o.String())
			case accept && (o.Err != nil || o.Out != sc.render(en.tag)):
				r.Violation("grammar-crosses-engines:own-definition-not-used", desc, sc.render(en.tag), o.String())
			case !accept && o.Err == nil:
				r.Violation("grammar-crosses-engines:accepted-without-definition", desc, "rejected: this engine does not define what the template uses (or the template is ill-nested)", o.String())
			}
		}
		r.Class("engines/" + sc.text)
	}}
}

// ---- sixth family: the verdict does not depend on how the tags are SPELLED. Every token sequence of <=3|4
// symbols is re-spelled with each of seven whitespace/trim-marker conventions inside its tags (no padding, two
// blanks, tabs, newline after the opening delimiter, newline before the closing delimiter, trim markers on both
// sides, trim marker glued to the name) and must get the verdict the model gives the canonical spelling; an
// accepted template must also render the same markers (whitespace aside, since trim markers eat it).
var c06TagRe = regexp.MustCompile(`\{% ([^%]*?) %\}`)

func c06Respell(src string, variant int) string {
	return c06TagRe.ReplaceAllStringFunc(src, func(tag string) string {
		inner := strings.TrimSuffix(strings.TrimPrefix(tag, "{% "), " %}")
		switch variant {
		case 0:
			return "{%" + inner + "%}"
		case 1:
			return "{%  " + inner + "  %}"
		case 2:
			return "{%\t" + inner + "\t%}"
		case 3:
			return "{%\n" + inner + " %}"
		case 4:
			return "{% " + inner + "\n%}"
		case 5:
			return "{%- " + inner + " -%}"
		case 7:
			return "{% " + inner + "\r\n%}"
		}
		return "{%-" + inner + "-%}"
	})
}

func c06SpellingFamily(tier string) explore.Family {
	N := 3
	if tier == "thorough" {
		N = 4
	}
	K := len(c06Alpha)
	const variants = 8
	return explore.Family{Name: fmt.Sprintf("tag-spellings-of-sequences<=%d", N), Count: seqCount(K, N) * variants, Run: func(i int64, r *explore.Rec) {
		variant := int(i % variants)
		seq := seqAt(K, i/variants)
		var sb strings.Builder
		for k, si := range seq {
			if c06Alpha[si].name == "text" {
				sb.WriteString("T" + strconv.Itoa(k) + ";")
			} else {
				sb.WriteString(c06Alpha[si].src)
			}
		}
		canon := sb.String()
		src := c06Respell(canon, variant)
		if src == canon {
			return
		}
		v := c06Model(seq)
		r.Eval()
		r.Transition()
		r.Trace()
		desc := map[string]any{"template": src, "canonical_spelling": canon}
		var tpl *liquid.Template
		var err liquid.SourceError
		if p := explore.Safe(func() { tpl, err = c06.eng.ParseTemplate([]byte(src)) }); p != nil {
			r.Violation(p.Key(), desc, "accept or reject", p.Value)
			return
		}
		if (err == nil) != v.accept {
			exp, obs := "rejected, like the canonical spelling", "accepted"
			if v.accept {
				exp, obs = "accepted, like the canonical spelling", "rejected: "+safeErr(err)
			}
			r.Violation("A1:accept-reject:tag-spelling", desc, exp, obs)
			return
		}
		r.Class(fmt.Sprintf("spelling%d/%v", variant, v.accept))
		if err != nil {
			return
		}
		exp, ok := c06Render(v.root)
		if !ok || strings.Contains(canon, "raw") {
			return // raw bodies keep the tags' own whitespace; compared in C05
		}
		var out []byte
		var rerr liquid.SourceError
		if p := explore.Safe(func() { out, rerr = tpl.Render(map[string]any{}) }); p != nil {
			r.Violation(p.Key(), desc, exp, p.Value)
			return
		}
		strip := func(x string) string { return strings.Join(strings.Fields(c12TableTags.ReplaceAllString(x, "")), "") }
		if rerr != nil || strip(string(out)) != strip(exp) {
			r.Violation("A3:rendered-markers:tag-spelling", desc, strconv.Quote(exp), fmt.Sprintf("%q err=%v", out, rerr))
		}
	}}
}

// ---- ninth family: words written after else and end tags; eighth family: block and clause bodies made only of whitespace; seventh family: two raw/comment blocks whose tags are spelled INDEPENDENTLY (8 x 8 spellings of the two
// end tags, 3 of the opening tags), with a structural token between them that is balanced, unbalanced or stray:
// each block must end at its own end tag, so what stands between them is parsed as ordinary tags.
func c06TwoOpaqueBlocksFamily() explore.Family {
	spell := func(inner string, v int) string {
		if v == 0 {
			return "{% " + inner + " %}"
		}
		return c06Respell("{% "+inner+" %}", v-1)
	}
	type mid struct {
		src    string
		accept bool
		out    string
	}
	mids := []mid{{"", true, ""}, {"{% if true %}", false, ""}, {"{% endif %}", false, ""}, {"{% if true %}X{% endif %}", true, "X"}, {"{% if false %}X{% endif %}Y", true, "Y"},
		{"{% for i in (1..1) %}", false, ""}, {"{% endraw %}", false, ""}, {"{% endcomment %}", false, ""}, {"{% else %}", false, ""}, {"{{ 1 }}", true, "1"}}
	kinds := []string{"raw", "comment"}
	const nv = 8
	return explore.Family{Name: "two-opaque-blocks-independent-spellings", Count: int64(len(mids) * nv * nv * 3 * 4), Run: func(i int64, r *explore.Rec) {
		rx := radix{i}
		k2, k1, ov, v2, v1, m := kinds[rx.next(2)], kinds[rx.next(2)], rx.next(3), rx.next(nv), rx.next(nv), mids[rx.next(len(mids))]
		src := "<" + spell(k1, ov) + "a" + spell("end"+k1, v1) + m.src + spell(k2, (ov+1)%3) + "b" + spell("end"+k2, v2) + ">"
		want := "<"
		if k1 == "raw" {
			want += "a"
		}
		want += m.out
		if k2 == "raw" {
			want += "b"
		}
		want += ">"
		r.Eval()
		r.Transition()
		r.Trace()
		o := Render(c06.eng, src, map[string]any{})
		desc := map[string]any{"template": src}
		r.Class(fmt.Sprintf("two-opaque/%v", m.accept))
		strip := func(x string) string { return strings.Join(strings.Fields(x), "") }
		switch {
		case o.Panic != nil:
			r.Violation("A1:two-opaque-blocks:panic", desc, "accept or reject", o.String())
		case m.accept && o.Err != nil:
			r.Violation("A1:accept-reject:two-opaque-blocks:well-nested-rejected", desc, "accepted", o.String())
		case !m.accept && o.Err == nil:
			r.Violation("A1:accept-reject:two-opaque-blocks:ill-nested-accepted", desc, "rejected: what stands between the two blocks is not properly nested", o.String())
		case m.accept && strip(o.Out) != strip(want):
			r.Violation("A3:rendered-markers:two-opaque-blocks", desc, strconv.Quote(want), o.String())
		}
	}}
}

// ---- eighth family: content that is only whitespace is content too: block and clause bodies made of blanks,
// newlines and tabs (no trim markers anywhere) are rendered under the blocks that enclose them like any text.
func c06WhitespaceBodiesFamily() explore.Family {
	wss := []string{" ", "\n", "\t \n", "  "}
	type form struct {
		src  string // %w = the whitespace body
		want func(w string) string
	}
	rep := func(w string, n int) string { return strings.Repeat(w, n) }
	forms := []form{
		{"[{% if true %}%w{% endif %}]", func(w string) string { return "[" + w + "]" }},
		{"[{% if false %}x{% else %}%w{% endif %}]", func(w string) string { return "[" + w + "]" }},
		{"[{% if false %}%w{% else %}y{% endif %}]", func(w string) string { return "[y]" }},
		{"[{% if false %}x{% elsif true %}%w{% else %}y{% endif %}]", func(w string) string { return "[" + w + "]" }},
		{"[{% unless false %}%w{% endunless %}]", func(w string) string { return "[" + w + "]" }},
		{"[{% case 1 %}{% when 1 %}%w{% else %}y{% endcase %}]", func(w string) string { return "[" + w + "]" }},
		{"[{% case 2 %}{% when 1 %}x{% else %}%w{% endcase %}]", func(w string) string { return "[" + w + "]" }},
		{"[{% for i in (1..3) %}%w{% endfor %}]", func(w string) string { return "[" + rep(w, 3) + "]" }},
		{"[{% for i in (1..0) %}x{% else %}%w{% endfor %}]", func(w string) string { return "[" + w + "]" }},
		{"[{% tablerow i in (1..2) %}%w{% endtablerow %}]", func(w string) string { return "[" + rep(w, 2) + "]" }},
		{"{% capture c %}%w{% endcapture %}[{{ c }}]", func(w string) string { return "[" + w + "]" }},
		{"[{% if true %}%w{% if true %}%w{% endif %}%w{% endif %}]", func(w string) string { return "[" + rep(w, 3) + "]" }},
		{"[{% for i in (1..2) %}{% if true %}%w{% endif %}{% endfor %}]", func(w string) string { return "[" + rep(w, 2) + "]" }},
		{"[%w{% if true %}a{% endif %}%w]", func(w string) string { return "[" + w + "a" + w + "]" }},
		{"[{% if true %}%wa%w{% endif %}]", func(w string) string { return "[" + w + "a" + w + "]" }},
	}
	return explore.Family{Name: "whitespace-only-bodies", Count: int64(len(forms) * len(wss)), Run: func(i int64, r *explore.Rec) {
		f, w := forms[int(i)/len(wss)], wss[int(i)%len(wss)]
		src := strings.ReplaceAll(f.src, "%w", w)
		want := f.want(w)
		r.Eval()
		r.Transition()
		r.Trace()
		o := Render(c06.eng, src, map[string]any{})
		got := c12TableTags.ReplaceAllString(o.Out, "")
		if strings.Contains(src, "tablerow") {
			got = strings.ReplaceAll(got, "\n", "") // the row decoration ends in a newline
			want = strings.ReplaceAll(want, "\n", "")
		}
		r.Class("whitespace-body")
		if o.Panic != nil || o.Err != nil || got != want {
			r.Violation("A3:rendered-markers:whitespace-only-body", map[string]any{"template": src}, strconv.Quote(want), o.String())
		}
	}}
}

// ---- ninth family: an else or end tag is that tag whatever stands after its name: words written behind it
// ("else if c", "endif comment") change neither the structure nor what is rendered.
func c06TagArgumentsFamily() explore.Family {
	forms := []struct{ src, want string }{ // %e = else tag, %x = the end tag's extra words
		{"[{% if false %}A{% ELSE %}B{% endif%x %}]", "[B]"}, {"[{% if true %}A{% ELSE %}B{% endif%x %}]", "[A]"},
		{"[{% if false %}A{% elsif false %}B{% ELSE %}C{% endif%x %}]", "[C]"}, {"[{% if false %}A{% ELSE %}B{% else %}C{% endif%x %}]", "[B]"},
		{"[{% unless true %}A{% ELSE %}B{% endunless%x %}]", "[B]"}, {"[{% case 1 %}{% when 2 %}A{% ELSE %}B{% endcase%x %}]", "[B]"},
		{"[{% case 1 %}{% when 1 %}A{% ELSE %}B{% endcase%x %}]", "[A]"}, {"[{% for i in (1..0) %}A{% ELSE %}B{% endfor%x %}]", "[B]"},
		{"[{% for i in (1..2) %}A{% ELSE %}B{% endfor%x %}]", "[AA]"}, {"[{% if false %}{% if true %}A{% ELSE %}B{% endif%x %}{% ELSE %}C{% endif %}]", "[C]"},
		{"[{% capture c %}A{% endcapture%x %}{{ c }}]", "[A]"}, {"[{% raw %}A{% endraw %}{% comment %}B{% endcomment %}]", "[A]"},
	}
	elseArgs := []string{"", " if false", " if true", " junk", " 1", " x y z", " if", " unless true", " elsif true", "\tif false"}
	endArgs := []string{"", " junk", " if true", " 1"}
	return explore.Family{Name: "words-after-else-and-end-tags", Count: int64(len(forms) * len(elseArgs) * len(endArgs)), Run: func(i int64, r *explore.Rec) {
		rx := radix{i}
		xa, ea, f := endArgs[rx.next(len(endArgs))], elseArgs[rx.next(len(elseArgs))], forms[rx.next(len(forms))]
		src := strings.ReplaceAll(strings.ReplaceAll(f.src, "{% ELSE %}", "{% else"+ea+" %}"), "%x", xa)
		r.Eval()
		r.Transition()
		r.Trace()
		o := Render(c06.eng, src, map[string]any{})
		r.Class("tag-arguments")
		if o.Panic != nil || o.Err != nil || o.Out != f.want {
			r.Violation("A3:rendered-markers:words-after-else-or-end-tag", map[string]any{"template": src}, f.want, o.String())
		}
	}}
}

func indexOf(xs []string, x string) int {
	for i, y := range xs {
		if x == y {
			return i
		}
	}
	return 0
}

// c06Why names the structural reason of a reject/accept disagreement (violation key).
func c06Why(seq []int, v c06Verdict) string {
	if v.accept {
		return "well-nested-rejected"
	}
	if v.state == "reject" {
		return "stray-or-mismatched-tag-accepted"
	}
	if strings.HasSuffix(v.state, "|comment") {
		return "unterminated-comment-accepted"
	}
	if strings.HasSuffix(v.state, "|raw") {
		return "unterminated-raw-accepted"
	}
	return "unterminated-block-accepted"
}

func init() {
	explore.Register(&explore.Prop{
		ID:    "C06",
		Level: "model_checking",
		Rule: "all token sequences of length <=5 (quick) / <=6 (thorough) over the 22-symbol alphabet {text marker, object, plain tag, 8 block openers, else/elsif/when, 8 end tags}, every tag with valid arguments so only structure decides; " +
			"model = pushdown acceptor with comment/raw modes and the clause table of the Liquid documentation; every sequence is parsed by the real ParseTemplate (no state merging); accepted templates are compared by tree shape (GetRoot) and by rendered markers; second family: every accepted sequence of <=6 (quick) / <=8 (thorough) symbols over an 18-symbol semantic alphabet in which conditions may be false (if false, unless true, empty for, when 2, elsif false), enumerated by a depth-first walk over model-viable prefixes, so that else/elsif/when bodies are the taken paths; third family: nesting depth 1..40 of each block kind and of the alternating pattern, with every single-position edit (end tag dropped, adjacent end tags swapped, end tag of another kind, stray elsif); fourth family: clauses at scale - 5 block shapes with all their clauses (if/elsif/else, unless/else, case/when/else, for/else) nested 1..40 deep with clauses on every level, and holding or following 1..40 closed sibling blocks, conditions all taken / none taken / alternating, compared by tree shape and rendered markers; seventh family: two raw/comment blocks with independently spelled tags around a balanced/unbalanced/stray token; sixth family: every sequence of <=3|4 tokens re-spelled with seven whitespace/trim-marker conventions inside its tags must get the canonical verdict and markers; fifth family: three engines with different registered blocks/tags parse the same sources in turn (definitions must not cross engines); " +
			"state = PDA configuration (open-block stack, mode) after the sequence; transition/trace = one sequence",
		Assumptions: []string{
			"rendering is not compared when a clause follows an else or content stands between case and its first when (order semantics not stated); acceptance and tree shape still are",
			"tablerow decoration is stripped before comparing rendered markers",
		},
		Setup:    func(string) { c06.eng = liquid.NewEngine() },
		Families: c06Families,
		Bound: func(tier string) string {
			if tier == "thorough" {
				return "all sequences of <=6 tokens over 22 symbols (119 M)"
			}
			return "all sequences of <=5 tokens over 22 symbols (5.4 M)"
		},
	})
}
