package props

import (
	"errors"
	"fmt"
	"os"
	"strings"

	"github.com/osteele/liquid"
	"github.com/osteele/liquid/expressions"
	"github.com/osteele/liquid/render"
	"verifmc/explore"
)

// C07 — every failure is a SourceError that locates the offending tag or object.

var errC07Sentinel = errors.New("sentinel-filter-failure")

var c07 struct {
	eng, strict *liquid.Engine
	mk          func() *liquid.Engine
}

type c07Kind struct {
	name      string
	src       string // the failing construct ("" = special)
	parseTime bool
	strict    bool
	wraps     string // "sentinel" | "cause" | "notexist" | ""
	tail      string // emitted after the construct (e.g. a closer for a block with bad arguments)
	unclosed  bool   // drop every end tag after the construct
	body      string // emitted right after the construct in every case (content of an unclosed block)
}

var c07Kinds = []c07Kind{
	{name: "object-syntax", src: "{{ | }}", parseTime: true, wraps: "cause"},
	{name: "object-syntax-2", src: "{{ a b }}", parseTime: true, wraps: "cause"},
	{name: "tag-args-syntax-if", src: "{% if | %}", tail: "{% endif %}", parseTime: true, wraps: "cause"},
	{name: "tag-args-syntax-assign", src: "{% assign %}", parseTime: true},
	{name: "tag-args-syntax-for", src: "{% for x %}", tail: "{% endfor %}", parseTime: true, wraps: "cause"},
	{name: "unknown-tag", src: "{% nosuchtag 1 %}", parseTime: true},
	{name: "unknown-filter", src: "{{ 1 | nosuchfilter }}"},
	{name: "filter-own-error", src: "{{ 1 | failing }}", wraps: "sentinel"},
	{name: "filter-own-error-in-tag", src: "{% assign q = 1 | failing %}", wraps: "sentinel"},
	{name: "filter-own-error-in-if", src: "{% if 1 | failing %}", tail: "{% endif %}", wraps: "sentinel"},
	{name: "division-by-zero", src: "{{ 1 | divided_by: 0 }}", wraps: "cause"},
	// the failing condition is that of a LATER clause (reached because the earlier ones do not hold), on the opening tag's line
	{name: "filter-own-error-in-elsif", src: "{% if false %}a{% elsif 1 | failing %}", tail: "b{% endif %}", wraps: "sentinel"},
	{name: "filter-own-error-in-second-elsif", src: "{% if nil %}a{% elsif false %}b{% elsif 1 | failing %}", tail: "c{% else %}d{% endif %}", wraps: "sentinel"},
	{name: "type-error-in-elsif", src: `{% if false %}a{% elsif 1 | plus: "a" %}`, tail: "b{% endif %}", wraps: "cause"},
	{name: "unknown-filter-in-elsif", src: "{% if false %}a{% elsif 1 | nosuchfilter %}", tail: "b{% endif %}"},
	{name: "filter-own-error-in-unless", src: "{% unless 1 | failing %}", tail: "{% endunless %}", wraps: "sentinel"},
	{name: "filter-own-error-in-case", src: "{% case 1 | failing %}{% when 1 %}", tail: "{% endcase %}", wraps: "sentinel"},
	{name: "filter-own-error-in-for", src: "{% for i in 1 | failing %}", tail: "{% endfor %}", wraps: "sentinel"},
	{name: "filter-own-error-in-capture-body", src: "{% capture c %}{{ 1 | failing }}", tail: "{% endcapture %}", wraps: "sentinel"},
	// a filter whose own error IS a SourceError - of another template it rendered or parsed itself, with another
	// path and line: the outer error still locates the outer object
	{name: "filter-returns-render-source-error", src: "{{ 1 | nested_render_error }}", wraps: "cause"},
	{name: "filter-returns-parse-source-error", src: "{{ 1 | nested_parse_error }}", wraps: "cause"},
	{name: "filter-returns-source-error-in-tag", src: "{% assign q = 1 | nested_render_error %}", wraps: "cause"},
	// custom tags: one returns its own error; two hand on the error of a sub-template they parsed and rendered without
	// any location, failing on its first line - an error that says nothing about where: the tag is the failing construct
	{name: "custom-tag-returns-own-error", src: "{% ownfail %}", wraps: "sentinel"},
	{name: "custom-tag-passes-unlocated-parse-error", src: "{% subfail_parse %}"},
	{name: "custom-tag-passes-unlocated-render-error", src: "{% subfail_render %}", wraps: "cause"},
	{name: "custom-tag-passes-unlocated-syntax-error", src: "{% subfail_syntax %}", wraps: "cause"},
	{name: "custom-tag-passes-unlocated-tag-error", src: "{% subfail_tag %}"},
	{name: "custom-tag-passes-unlocated-error-in-branch", src: "{% if true %}{% subfail_parse %}{% endif %}"},
	{name: "type-error", src: `{{ 1 | plus: "a" }}`, wraps: "cause"},
	{name: "strict-undefined", src: "{{ no_such_variable }}", strict: true},
	{name: "unterminated-block", src: "{% if true %}", parseTime: true, unclosed: true},
	{name: "unterminated-for", src: "{% for i in (1..2) %}", parseTime: true, unclosed: true},
	{name: "unterminated-block-with-closed-inner-blocks", src: "{% if true %}", parseTime: true, unclosed: true,
		body: "\nx{% for i in (1..1) %}y{% endfor %}\n{% comment %}c{% endcomment %}{% raw %}r{% endraw %}{% case 1 %}{% when 1 %}{% endcase %}"},
	{name: "unterminated-capture-with-closed-inner-block", src: "{% capture c %}", parseTime: true, unclosed: true, body: "{% unless false %}u{% endunless %}\n"},
	{name: "unterminated-comment", src: "{% comment %}", parseTime: true, unclosed: true, body: " c {{ x }} {% if %}"},
	{name: "unterminated-raw", src: "{% raw %}", parseTime: true, unclosed: true, body: " r {{ x }}"},
	{name: "stray-end-tag", src: "{% endraw %}", parseTime: true},
	{name: "stray-clause-tag", src: "{% when 1 %}", parseTime: true},
	{name: "include-missing", src: `{% include "c07_no_such_file.html" %}`, wraps: "notexist"},
	{name: "include-non-string", src: "{% include 12 %}"},
	{name: "cycle-outside-loop-args", src: "{% cycle %}", parseTime: true},
}

type c07Form struct{ open, close string }

var c07Forms = []c07Form{
	{"{% if true %}", "{% endif %}"},
	{"{% unless true %}{% else %}", "{% endunless %}"},
	{"{% if false %}{% elsif true %}", "{% endif %}"},
	{"{% case 1 %}{% when 1 %}", "{% endcase %}"},
	{"{% for i in (1..2) %}", "{% endfor %}"},
	{"{% tablerow i in (1..2) %}", "{% endtablerow %}"},
	{"{% capture c %}", "{% endcapture %}"},
}

var c07CustomForms = []c07Form{
	{"{% passblock %}", "{% endpassblock %}"},
	{"{% wrapblock %}", "{% endwrapblock %}"},
	{"{% innerblock %}", "{% endinnerblock %}"},
}

// Surrounding text. The last one is a decoy: the very same construct, on a line of its own, inside a branch
// that is not taken (for render-time failures; parse-time kinds get plain text instead) - the error must
// still name the line of the occurrence that failed.
// The third one holds terminated raw and comment blocks whose tags wrap over lines (newlines INSIDE the opening and
// end tags, in the bodies, and a CRLF): every one of those newlines counts.
var c07Layouts = []string{"", "x\n", "\n{% raw\n%} r\n{{ {% endraw\n %}y{% comment %}c\n{%\nendcomment\r\n%} \n", "\x00decoy"}

var c07Locs = []struct {
	path string
	line int
}{{"", 0}, {"", 1}, {"", 7}, {"dir/t.html", 0}, {"dir/t.html", 1}, {"dir/t.html", 7},
	// Path is the path the template was parsed WITH, spelled as it was given: not cleaned, not made absolute
	{"./t.html", 1}, {"dir//t.html", 0}, {"a/../b.html", 7}, {"dir/", 1}, {"/abs/t.html", 1}, {" spaced name.html", 1}, {"ünï/日本.html", 1}, {`C:\site\t.html`, 1}, {".", 0}, {"../up.html", 1}}

func c07Families(tier string) []explore.Family {
	maxD := 2
	if tier == "thorough" {
		maxD = 3
	}
	var fams []explore.Family
	Ly, K := len(c07Layouts), len(c07Kinds)
	type depthFam struct {
		name   string
		d      int
		table  []c07Form
		custom bool // keep only nesting paths through at least one custom block; usual path spellings only
	}
	var dfs []depthFam
	for d := 0; d <= maxD; d++ {
		dfs = append(dfs, depthFam{fmt.Sprintf("depth%d", d), d, c07Forms, false})
	}
	// custom blocks that render their body themselves and hand its error on (as it is, through ctx.WrapError, or
	// after rendering the body into a string): the innermost failing construct is still the one inside the body
	dfs = append(dfs, depthFam{"inside-custom-blocks-depth1", 1, c07CustomForms, true}, depthFam{"inside-custom-blocks-depth2", 2, append(append([]c07Form{}, c07CustomForms...), c07Forms[0], c07Forms[4]), true})
	for _, df := range dfs {
		d, df := df.d, df
		F := len(df.table)
		cnt := int64(K * len(c07Locs) * 2 * 2)
		for j := 0; j < d; j++ {
			cnt *= int64(F)
		}
		for j := 0; j <= d; j++ {
			cnt *= int64(Ly)
		}
		fams = append(fams, explore.Family{Name: df.name, Count: cnt, Run: func(i int64, r *explore.Rec) {
			rx := radix{i}
			nlInTags := rx.next(2) == 1
			viaParseAndRender := rx.next(2) == 1
			li := rx.next(len(c07Locs))
			loc := c07Locs[li]
			kind := c07Kinds[rx.next(K)]
			if d >= 2 && li >= 6 {
				return // the unusual path spellings are combined with nesting depth 0 and 1 only (cost)
			}
			forms := make([]c07Form, d)
			anyCustom := false
			for j := range forms {
				k := rx.next(F)
				forms[j] = df.table[k]
				anyCustom = anyCustom || k < len(c07CustomForms)
			}
			if df.custom && (!anyCustom || li >= 6 || (d >= 2 && li >= 3)) {
				return
			}
			lays := make([]string, d+1)
			for j := range lays {
				lays[j] = c07Layouts[rx.next(Ly)]
			}
			for j := range lays {
				if lays[j] == "\x00decoy" {
					if kind.parseTime {
						lays[j] = "decoy\n"
					} else {
						lays[j] = "{% if false %}" + kind.src + kind.tail + "{% endif %}\n"
					}
				}
			}
			if kind.name == "stray-clause-tag" && d > 0 && strings.Contains(forms[d-1].open, "case") {
				return // a when directly inside case is not stray
			}
			if viaParseAndRender && (loc.path != "" || loc.line != 0) {
				return // ParseAndRender is the (no path, line 0) entry point
			}
			nl := func(tag string) string {
				if nlInTags {
					return strings.Replace(tag, "{% ", "{%\n", 1)
				}
				return tag
			}
			var sb strings.Builder
			for j, f := range forms {
				sb.WriteString(lays[j])
				sb.WriteString(nl(f.open))
			}
			sb.WriteString(lays[d])
			offset := sb.Len()
			sb.WriteString(kind.src)
			sb.WriteString(kind.body)
			sb.WriteString("\ntail\n")
			if !kind.unclosed {
				sb.WriteString(kind.tail)
				for j := d - 1; j >= 0; j-- {
					sb.WriteString("\n" + forms[j].close)
				}
			}
			src := sb.String()
			wantLine := loc.line + strings.Count(src[:offset], "\n")
			eng := c07.eng
			if kind.strict {
				eng = c07.strict
			}
			desc := func() any {
				return map[string]any{"template": src, "path": loc.path, "start_line": loc.line, "failing_construct": kind.src, "kind": kind.name, "via": map[bool]string{true: "ParseAndRender", false: "ParseTemplateLocation+Render"}[viaParseAndRender]}
			}
			r.Eval()
			r.Transition()
			var perr, rerr liquid.SourceError
			var out []byte
			p := explore.Safe(func() {
				if viaParseAndRender {
					out, rerr = eng.ParseAndRender([]byte(src), map[string]any{})
					return
				}
				var tpl *liquid.Template
				tpl, perr = eng.ParseTemplateLocation([]byte(src), loc.path, loc.line)
				if perr == nil {
					out, rerr = tpl.Render(map[string]any{})
				}
			})
			if p != nil {
				r.Violation(p.Key(), desc(), "a SourceError", p.Value)
				return
			}
			err := perr
			if err == nil {
				err = rerr
			}
			ctx := fmt.Sprintf("%s/path=%v/line=%d", kind.name, loc.path != "", loc.line)
			r.Class(kind.name + "/" + fmt.Sprint(perr != nil))
			r.State(fmt.Sprintf("depth=%d,path=%v,line0=%v", d, loc.path != "", loc.line == 0))
			// (L1)
			if err == nil {
				r.Violation("L1:no-error:"+kind.name, desc(), "a non-nil SourceError", fmt.Sprintf("output %q", out))
				return
			}
			if len(out) != 0 {
				r.Violation("L1:output-with-error:"+kind.name, desc(), "no output together with an error", fmt.Sprintf("%q", out))
			}
			// (L5)
			if kind.parseTime && perr == nil && !viaParseAndRender {
				r.Violation("L5:not-a-parse-error:"+kind.name, desc(), "failure at parse time", "parsed; failed at render: "+safeErr(rerr))
			}
			// (L2)
			if err.LineNumber() != wantLine {
				r.Violation("L2:line:"+kind.name+fmt.Sprintf(":path=%v", loc.path != ""), desc(), fmt.Sprintf("line %d", wantLine), fmt.Sprintf("line %d (%s)", err.LineNumber(), safeErr(err)))
			}
			// (L3)
			if err.Path() != loc.path {
				r.Violation("L3:path:"+kind.name, desc(), loc.path, err.Path())
			}
			msg := safeErr(err)
			if msg == "" {
				r.Violation("L1:empty-message:"+kind.name, desc(), "a message naming the problem", "")
			}
			// (L4)
			switch kind.wraps {
			case "sentinel":
				if !reaches(err.Cause(), func(e error) bool { return e == errC07Sentinel }) {
					r.Violation("L4:cause:"+kind.name, desc(), "Cause() reaches the filter's own error", fmt.Sprintf("%#v", err.Cause()))
				}
			case "cause":
				if err.Cause() == nil {
					r.Violation("L4:cause:"+kind.name, desc(), "a non-nil Cause()", "nil")
				}
			case "notexist":
				if !reaches(err.Cause(), os.IsNotExist) {
					r.Violation("L4:cause:"+kind.name, desc(), "Cause() satisfies os.IsNotExist", fmt.Sprintf("%#v", err.Cause()))
				}
			}
			r.Trace()
			_ = ctx
			if r.WantSample() {
				r.Sample(map[string]any{"case": desc(), "error": msg, "line": err.LineNumber(), "expected_line": wantLine})
			}
		}})
	}
	// under custom delimiters - among them delimiters that CONTAIN a newline (a tag closer that takes the line end with
	// it), whose newlines count like any others: every kind inside every form, re-spelled
	delimSets := [][4]string{{"<<", ">>", "<%", "%>"}, {"<<", ">>", "<%", "%>\n"}, {"[[\n", "]]", "[%", "%]"}, {"«", "»", "‹%", "%›"}, {"<", ">", "\n[", "]"}}
	type dEng struct{ eng, strict *liquid.Engine }
	dEngs := map[int]dEng{}
	respell := func(src string, q [4]string) string {
		return strings.NewReplacer("{{", q[0], "}}", q[1], "{%", q[2], "%}", q[3]).Replace(src)
	}
	fams = append(fams, explore.Family{Name: "under-custom-delimiters", Count: int64(len(delimSets) * K * len(c07Forms) * 6 * 2), Run: func(i int64, r *explore.Rec) {
		rx := radix{i}
		viaParseAndRender, li, form, kind, qi := rx.next(2) == 1, rx.next(6), c07Forms[rx.next(len(c07Forms))], c07Kinds[rx.next(K)], rx.next(len(delimSets))
		q, loc := delimSets[qi], c07Locs[li]
		if viaParseAndRender && (loc.path != "" || loc.line != 0) {
			return
		}
		if kind.name == "stray-clause-tag" && strings.Contains(form.open, "case") {
			return
		}
		if strings.ContainsAny(kind.src+kind.body+kind.tail, "<>[]«»‹›") {
			return // the construct's own text would collide with these delimiters
		}
		if strings.Contains(strings.Join(q[:], ""), "\n") && strings.Count(kind.src, "{%")+strings.Count(kind.src, "{{") > 1 {
			return // the construct's own tags would move the failing token to a later line
		}
		de, ok := dEngs[qi]
		if !ok {
			de = dEng{c07.mk().Delims(q[0], q[1], q[2], q[3]), c07.mk().Delims(q[0], q[1], q[2], q[3])}
			de.strict.StrictVariables()
			dEngs[qi] = de
		}
		pre := "x\n" + form.open + "\ny \n"
		src := pre + kind.src + kind.body + "\ntail\n"
		if !kind.unclosed {
			src += kind.tail + "\n" + form.close
		}
		rsrc, rpre := respell(src, q), respell(pre, q)
		wantLine := loc.line + strings.Count(rpre, "\n")
		eng := de.eng
		if kind.strict {
			eng = de.strict
		}
		desc := map[string]any{"template": rsrc, "delims": q, "path": loc.path, "start_line": loc.line, "kind": kind.name}
		r.Eval()
		r.Transition()
		r.Trace()
		var perr, rerr liquid.SourceError
		var out []byte
		p := explore.Safe(func() {
			if viaParseAndRender {
				out, rerr = eng.ParseAndRender([]byte(rsrc), map[string]any{})
				return
			}
			var tpl *liquid.Template
			tpl, perr = eng.ParseTemplateLocation([]byte(rsrc), loc.path, loc.line)
			if perr == nil {
				out, rerr = tpl.Render(map[string]any{})
			}
		})
		r.Class("custom-delims/" + kind.name)
		r.State("custom-delims")
		if p != nil {
			r.Violation(p.Key(), desc, "a SourceError", p.Value)
			return
		}
		err := perr
		if err == nil {
			err = rerr
		}
		switch {
		case err == nil:
			r.Violation("L1:no-error:custom-delimiters:"+kind.name, desc, "a non-nil SourceError", fmt.Sprintf("output %q", out))
		case err.LineNumber() != wantLine:
			r.Violation("L2:line:custom-delimiters:"+kind.name, desc, fmt.Sprintf("line %d", wantLine), fmt.Sprintf("line %d (%s)", err.LineNumber(), safeErr(err)))
		case err.Path() != loc.path:
			r.Violation("L3:path:custom-delimiters:"+kind.name, desc, loc.path, err.Path())
		}
	}})
	// scaled: the failing construct after 9..5000 lines and inside 5..40 nested blocks
	lines := []int{9, 10, 11, 99, 100, 101, 255, 256, 257, 999, 1000, 1001, 4999, 5000}
	depths := []int{0, 5, 8, 9, 10, 16, 17, 33, 40}
	kinds := []int{}
	for ki, k := range c07Kinds {
		switch k.name {
		case "object-syntax", "unknown-tag", "filter-own-error", "type-error", "unterminated-block", "stray-end-tag", "division-by-zero", "unterminated-comment", "filter-own-error-in-if":
			kinds = append(kinds, ki)
		}
	}
	fams = append(fams, explore.Family{Name: "scaled", Count: int64(len(lines) * len(depths) * len(kinds) * len(c07Locs)), Run: func(i int64, r *explore.Rec) {
		rx := radix{i}
		loc, kind, d, nl := c07Locs[rx.next(len(c07Locs))], c07Kinds[kinds[rx.next(len(kinds))]], depths[rx.next(len(depths))], lines[rx.next(len(lines))]
		var sb strings.Builder
		// newlines are spread: some as plain text, some inside tags, some between the nested openers
		sb.WriteString(strings.Repeat("text\n", nl/2))
		sb.WriteString("{% assign\nz\n=\n1 %}") // 3 newlines inside a tag
		rest := nl - nl/2 - 3
		for j := 0; j < d; j++ {
			f := c07Forms[j%len(c07Forms)]
			sb.WriteString(f.open)
			if rest > 0 {
				sb.WriteString("\n")
				rest--
			}
		}
		sb.WriteString(strings.Repeat("\n", rest))
		offset := sb.Len()
		sb.WriteString(kind.src + kind.body + "\ntail\n")
		if !kind.unclosed {
			sb.WriteString(kind.tail)
			for j := d - 1; j >= 0; j-- {
				sb.WriteString("\n" + c07Forms[j%len(c07Forms)].close)
			}
		}
		src := sb.String()
		wantLine := loc.line + strings.Count(src[:offset], "\n")
		r.Eval()
		r.Transition()
		var err liquid.SourceError
		var out []byte
		p := explore.Safe(func() {
			tpl, perr := c07.eng.ParseTemplateLocation([]byte(src), loc.path, loc.line)
			if perr != nil {
				err = perr
				return
			}
			out, err = tpl.Render(map[string]any{})
		})
		desc := func() any {
			return map[string]any{"failing_construct": kind.src, "kind": kind.name, "newlines_before_it": nl, "nesting_depth": d, "path": loc.path, "start_line": loc.line}
		}
		switch {
		case p != nil:
			r.Violation(p.Key(), desc(), "a SourceError", p.Value)
		case err == nil:
			r.Violation("L1:no-error:"+kind.name, desc(), "a SourceError", trunc80(string(out)))
		case err.LineNumber() != wantLine || err.Path() != loc.path:
			r.Violation("L2:line:scaled:"+kind.name, desc(), fmt.Sprintf("line %d path %q", wantLine, loc.path), fmt.Sprintf("line %d path %q: %s", err.LineNumber(), err.Path(), trunc80(safeErr(err))))
		}
		r.Class("scaled/" + kind.name)
	}})
	return fams
}

// reaches walks Cause()/Unwrap()/.Err chains.
func reaches(e error, pred func(error) bool) bool {
	for depth := 0; e != nil && depth < 10; depth++ {
		if pred(e) {
			return true
		}
		switch x := e.(type) {
		case interface{ Cause() error }:
			e = x.Cause()
		case interface{ Unwrap() error }:
			e = x.Unwrap()
		default:
			// expressions.FilterError keeps the filter's error in a field
			if fe, ok := filterErr(e); ok {
				e = fe
			} else {
				return false
			}
		}
	}
	return false
}

func innermostText(e error) string {
	for depth := 0; depth < 10; depth++ {
		var next error
		switch x := e.(type) {
		case interface{ Cause() error }:
			next = x.Cause()
		case interface{ Unwrap() error }:
			next = x.Unwrap()
		default:
			if fe, ok := filterErr(e); ok {
				next = fe
			}
		}
		if next == nil {
			break
		}
		e = next
	}
	return safeErr(e)
}

func init() {
	explore.Register(&explore.Prop{
		ID:    "C07",
		Level: "exploration",
		Rule: "41 kinds of failing construct (syntax error in object / tag arguments, unknown tag, unknown filter, filter's own error in object/assign/if, division by zero, type error, strict undefined variable, unterminated blocks, stray end/clause tags, include of a missing file / non-string, bad cycle) placed in the taken body of every nesting path of depth 0..2 (quick) / 0..3 (thorough) over 7 enclosing forms, " +
			"with 0/1/2 newlines + filler independently before every opener and before the construct, with and without a newline inside every opener tag, parsed with path in {none, dir/t.html} x start line in {0,1,7}, through ParseTemplateLocation+Render and ParseAndRender; scaled: 9 kinds after 9..5000 newlines (in text, inside tags, between openers) and inside 0..40 nested blocks; " +
			"class = (kind, fails at parse time); distinct_nontrivial counts distinct classes",
		Assumptions: []string{
			"the failing construct of an unterminated block is the innermost unclosed opening tag; of a stray end/clause tag, that tag; of a missing include, the include tag",
			"whether an unknown filter is reported at parse or render time is not stated",
			"errors raised inside an included file are not placed (the statement does not say whose line is meant)",
		},
		Setup: func(string) {
			mk := func() *liquid.Engine {
				e := liquid.NewEngine()
				e.RegisterFilter("failing", func(v any) (any, error) { return nil, errC07Sentinel })
				inner := liquid.NewEngine()
				nested := func(src string) func(v any) (any, error) {
					return func(v any) (any, error) {
						tpl, err := inner.ParseTemplateLocation([]byte(src), "c07_inner/other.html", 40)
						if err != nil {
							return nil, err
						}
						out, err := tpl.Render(map[string]any{})
						if err != nil {
							return nil, err
						}
						return string(out), nil
					}
				}
				e.RegisterFilter("nested_render_error", nested("x\ny\n{{ 1 | nosuchfilter }}"))
				e.RegisterFilter("nested_parse_error", nested("\n{{ 1 | }}"))
				e.RegisterTag("ownfail", func(render.Context) (string, error) { return "", errC07Sentinel })
				sub := func(src string) func(render.Context) (string, error) {
					return func(render.Context) (string, error) {
						out, err := inner.ParseAndRenderString(src, map[string]any{})
						if err != nil {
							return "", err
						}
						return out, nil
					}
				}
				e.RegisterTag("subfail_parse", sub("{% if true %}never closed")) // an error made by the parser itself: it has no cause
				e.RegisterTag("subfail_syntax", sub("{{ 1 | }}"))
				e.RegisterTag("subfail_tag", sub("{% include 12 %}")) // an error made by a tag at render time
				e.RegisterTag("subfail_render", sub("{{ 1 | divided_by: 0 }}"))
				e.RegisterBlock("passblock", func(ctx render.Context) (string, error) {
					s, err := ctx.InnerString()
					if err != nil {
						return "", err
					}
					return s, nil
				})
				e.RegisterBlock("wrapblock", func(ctx render.Context) (string, error) {
					s, err := ctx.InnerString()
					if err != nil {
						return "", ctx.WrapError(err)
					}
					return s, nil
				})
				e.RegisterBlock("innerblock", func(ctx render.Context) (string, error) {
					var sb strings.Builder
					if err := ctx.RenderChildren(&sb); err != nil {
						return "", err
					}
					return sb.String(), nil
				})
				return e
			}
			c07.eng, c07.strict, c07.mk = mk(), mk(), mk
			c07.strict.StrictVariables()
		},
		Families: c07Families,
		Bound: func(tier string) string {
			if tier == "thorough" {
				return "nesting depth 0..3 over 7 forms, all 4^(depth+1) layouts of surrounding text (one of them a decoy: the same construct on an earlier line in a branch not taken)"
			}
			return "nesting depth 0..2 over 7 forms, all 4^(depth+1) layouts of surrounding text (one of them a decoy: the same construct on an earlier line in a branch not taken)"
		},
	})
}

func filterErr(e error) (error, bool) {
	if fe, ok := e.(expressions.FilterError); ok {
		return fe.Err, true
	}
	return nil, false
}
