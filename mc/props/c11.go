package props

import (
	"fmt"
	"math"
	"reflect"
	"regexp"
	"sort"
	"strconv"
	"strings"

	"github.com/osteele/liquid"
	"github.com/osteele/liquid/render"
	"verifmc/explore"
)

// C11 — loops visit exactly the selected items with consistent forloop state.

var c11 struct {
	eng *liquid.Engine
}

const c11Trace = "[{{ x }}:{{ forloop.index }},{{ forloop.index0 }},{{ forloop.rindex }},{{ forloop.rindex0 }},{{ forloop.length }},{{ forloop.first }},{{ forloop.last }}]"

func c11RefTrace(item string, i, n int) string {
	return fmt.Sprintf("[%s:%d,%d,%d,%d,%d,%v,%v]", item, i, i-1, n-i+1, n-i, n, i == 1, i == n)
}

// selection: reverse, then skip offset, then take limit. ok=false when the text is silent (negative modifiers).
func c11Select(items []string, reversed bool, off, lim *int) (sel []string, ok bool) {
	sel = append([]string{}, items...)
	if reversed {
		for i, j := 0, len(sel)-1; i < j; i, j = i+1, j-1 {
			sel[i], sel[j] = sel[j], sel[i]
		}
	}
	if off != nil {
		if *off < 0 {
			return nil, false
		}
		if *off > len(sel) {
			sel = nil
		} else {
			sel = sel[*off:]
		}
	}
	if lim != nil {
		if *lim < 0 {
			return nil, false
		}
		if *lim < len(sel) {
			sel = sel[:*lim]
		}
	}
	return sel, true
}

// ("[]uint8": a typed slice of small numbers is an array like any other; only printing treats it as text)
var c11Reprs = []string{"[]any", "[]int", "array", "range-literal", "range-vars", "[]uint8", "[]float32"}

func c11Collection(repr string, n int) (expr string, bind map[string]any) {
	bind = map[string]any{}
	switch repr {
	case "[]any":
		a := make([]any, n)
		for i := range a {
			a[i] = 10 + i
		}
		bind["a"] = a
		return "a", bind
	case "[]int":
		a := make([]int, n)
		for i := range a {
			a[i] = 10 + i
		}
		bind["a"] = a
		return "a", bind
	case "[]uint8":
		a := make([]uint8, n)
		for i := range a {
			a[i] = uint8(10 + i)
		}
		bind["a"] = a
		return "a", bind
	case "[]float32":
		a := make([]float32, n)
		for i := range a {
			a[i] = float32(10 + i)
		}
		bind["a"] = a
		return "a", bind
	case "array":
		arr := reflect.New(reflect.ArrayOf(n, reflect.TypeOf(0))).Elem()
		for i := 0; i < n; i++ {
			arr.Index(i).SetInt(int64(10 + i))
		}
		bind["a"] = arr.Interface()
		return "a", bind
	case "range-literal":
		return fmt.Sprintf("(10..%d)", 10+n-1), bind
	case "range-vars":
		bind["lo"], bind["hi"] = 10, 10+n-1
		return "(lo..hi)", bind
	}
	panic("harness: repr")
}

type c11Body struct {
	name string
	src  func(trace string) string
	// which iterations (1-based) produce which output, given n selected
	ref func(items []string) string
}

func c11Bodies() []c11Body {
	plain := func(items []string) []string {
		out := make([]string, len(items))
		for i, it := range items {
			out[i] = c11RefTrace(it, i+1, len(items))
		}
		return out
	}
	bodies := []c11Body{{"plain", func(t string) string { return t }, func(items []string) string { return strings.Join(plain(items), "") }},
		{"via-application-tag", func(t string) string { return "{% looptrace %}" }, func(items []string) string { return strings.Join(plain(items), "") }}}
	for k := 1; k <= 3; k++ {
		k := k
		bodies = append(bodies, c11Body{fmt.Sprintf("break@%d", k),
			func(t string) string {
				return fmt.Sprintf("{%% if forloop.index == %d %%}{%% break %%}{%% endif %%}", k) + t
			},
			func(items []string) string {
				p := plain(items)
				if k-1 < len(p) {
					p = p[:k-1]
				}
				return strings.Join(p, "")
			}})
		bodies = append(bodies, c11Body{fmt.Sprintf("continue@%d", k),
			func(t string) string {
				return "<" + fmt.Sprintf("{%% if forloop.index == %d %%}{%% continue %%}{%% endif %%}", k) + t + ">"
			},
			func(items []string) string {
				var sb strings.Builder
				for i, s := range plain(items) {
					sb.WriteString("<")
					if i+1 == k {
						continue
					}
					sb.WriteString(s + ">")
				}
				return sb.String()
			}})
	}
	// break/continue inside an inner loop affect the inner loop only
	bodies = append(bodies, c11Body{"inner-break",
		func(t string) string {
			return "{% for y in (1..3) %}{% if y == 2 %}{% break %}{% endif %}<{{ y }}>{% endfor %}" + t
		},
		func(items []string) string {
			var sb strings.Builder
			for _, s := range plain(items) {
				sb.WriteString("<1>" + s)
			}
			return sb.String()
		}})
	bodies = append(bodies, c11Body{"inner-continue",
		func(t string) string {
			return "{% for y in (1..3) %}{% if y == 2 %}{% continue %}{% endif %}<{{ y }}>{% endfor %}" + t
		},
		func(items []string) string {
			var sb strings.Builder
			for _, s := range plain(items) {
				sb.WriteString("<1><3>" + s)
			}
			return sb.String()
		}})
	// break nested two blocks deep (if inside unless)
	bodies = append(bodies, c11Body{"break-in-nested-if",
		func(t string) string {
			return t + "{% unless false %}{% if forloop.index == 2 %}{% case 1 %}{% when 1 %}{% break %}{% endcase %}{% endif %}{% endunless %}"
		},
		func(items []string) string {
			p := plain(items)
			if len(p) > 2 {
				p = p[:2]
			}
			return strings.Join(p, "")
		}})
	// the loop body itself mentions neither forloop nor the loop variable: the trace lives in an included file
	inc := `{% include "` + c11TraceFile + `" %}`
	bodies = append(bodies, c11Body{"trace-via-include", func(t string) string { return inc },
		func(items []string) string { return strings.Join(plain(items), "") }})
	bodies = append(bodies, c11Body{"break-on-value-via-include",
		func(t string) string { return "{% if x == 11 %}{% break %}{% endif %}" + inc },
		func(items []string) string {
			p := plain(items)
			for i, it := range items {
				if it == "11" {
					p = p[:i]
					break
				}
			}
			return strings.Join(p, "")
		}})
	return bodies
}

const c11TraceFile = "c11_trace.liquid"

var tdRe = regexp.MustCompile(`(?s)<td[^>]*>(.*?)</td>`)
var trRe = regexp.MustCompile(`(?s)<tr[^>]*>(.*?)</tr>`)

func c11Families(tier string) []explore.Family {
	maxN, lo, hi := 5, -1, 6
	if tier == "thorough" {
		maxN, hi = 7, 8
	}
	mods := []*int{nil}
	for v := lo; v <= hi; v++ {
		v := v
		mods = append(mods, &v)
	}
	M := len(mods)
	bodies := c11Bodies()
	// spelling of the modifiers
	spellings := []string{"literal", "variable", "limit-first", "reversed-last", "reversed-middle"}
	var fams []explore.Family

	modStr := func(reversed bool, off, lim *int, spelling string) (string, map[string]any) {
		b := map[string]any{}
		var parts []string
		if reversed && spelling != "reversed-last" && spelling != "reversed-middle" {
			parts = append(parts, "reversed")
		}
		offS, limS := "", ""
		if off != nil {
			offS = "offset: " + strconv.Itoa(*off)
			if spelling == "variable" {
				offS = "offset: o"
				b["o"] = *off
			}
		}
		if lim != nil {
			limS = "limit: " + strconv.Itoa(*lim)
			if spelling == "variable" {
				limS = "limit: cfg.lim"
				b["cfg"] = map[string]any{"lim": *lim}
			}
		}
		switch {
		case spelling == "limit-first":
			parts = append(parts, limS, offS)
		case spelling == "reversed-last" && reversed:
			parts = append(parts, offS, limS, "reversed") // the order the modifiers are written in does not matter
		case spelling == "reversed-middle" && reversed:
			parts = append(parts, limS, "reversed", offS)
		default:
			parts = append(parts, offS, limS)
		}
		return strings.Join(strings.Fields(strings.Join(parts, " ")), " "), b
	}
	items := func(n int) []string {
		out := make([]string, n)
		for i := range out {
			out[i] = strconv.Itoa(10 + i)
		}
		return out
	}

	// --- for: the full grid
	fams = append(fams, explore.Family{Name: "for-grid", Count: int64((maxN + 1) * M * M * 2 * len(bodies) * len(c11Reprs) * len(spellings)),
		Run: func(i int64, r *explore.Rec) {
			rx := radix{i}
			sp, rp, bi, rev, li, oi, n := spellings[rx.next(len(spellings))], c11Reprs[rx.next(len(c11Reprs))], rx.next(len(bodies)), rx.next(2) == 1, rx.next(M), rx.next(M), rx.next(maxN+1)
			if (rp == "range-literal" || rp == "range-vars" || rp == "array" || rp == "[]uint8" || rp == "[]float32") && sp != "literal" {
				return // spelling variants are explored on the slice representations only
			}
			off, lim := mods[oi], mods[li]
			coll, bind := c11Collection(rp, n)
			ms, mb := modStr(rev, off, lim, sp)
			for k, v := range mb {
				bind[k] = v
			}
			body := bodies[bi]
			src := "{% for x in " + coll + " " + ms + " %}" + body.src(c11Trace) + "{% else %}ELSE{% endfor %}"
			r.Eval()
			r.Transition()
			o := Render(c11.eng, src, bind)
			desc := func() any { return map[string]any{"template": src, "n": n, "representation": rp} }
			sel, ok := c11Select(items(n), rev, off, lim)
			r.State(fmt.Sprintf("n=%d,sel=%d", n, len(sel)))
			if o.Panic != nil {
				r.Violation("panic:for", desc(), "output", o.String())
				return
			}
			if !ok {
				r.Class("for/negative-modifier/" + o.Class())
				return
			}
			r.Trace()
			want := body.ref(sel)
			if len(sel) == 0 {
				want = "ELSE"
			}
			r.Class(fmt.Sprintf("for/%s/sel=%d", body.name, len(sel)))
			if o.Err != nil || o.Out != want {
				r.Violation("wrong:for:"+body.name, desc(), want, o.String())
			}
			if r.WantSample() {
				r.Sample(map[string]any{"case": desc(), "observed": o.String()})
			}
		}})

	// --- tablerow: same grid (plain body), cols absent or 0..4
	cols := []*int{nil}
	for c := 0; c <= 4; c++ {
		c := c
		cols = append(cols, &c)
	}
	fams = append(fams, explore.Family{Name: "tablerow-grid", Count: int64((maxN + 1) * M * M * 2 * len(cols) * 2), Run: func(i int64, r *explore.Rec) {
		rx := radix{i}
		rp, ci, rev, li, oi, n := []string{"[]any", "range-literal"}[rx.next(2)], rx.next(len(cols)), rx.next(2) == 1, rx.next(M), rx.next(M), rx.next(maxN+1)
		off, lim, col := mods[oi], mods[li], cols[ci]
		coll, bind := c11Collection(rp, n)
		ms, _ := modStr(rev, off, lim, "literal")
		if col != nil {
			ms += " cols: " + strconv.Itoa(*col)
		}
		src := "{% tablerow x in " + coll + " " + ms + " %}" + c11Trace + "{% endtablerow %}"
		r.Eval()
		r.Transition()
		o := Render(c11.eng, src, bind)
		desc := func() any { return map[string]any{"template": src, "n": n, "representation": rp} }
		if o.Panic != nil {
			r.Violation("panic:tablerow", desc(), "output", o.String())
			return
		}
		sel, ok := c11Select(items(n), rev, off, lim)
		if !ok || (col != nil && *col == 0) {
			r.Class("tablerow/unspecified/" + o.Class())
			return
		}
		r.Trace()
		if o.Err != nil {
			r.Violation("wrong:tablerow", desc(), "a table", o.String())
			return
		}
		if len(sel) == 0 {
			r.Class("tablerow/empty")
			if strings.Contains(o.Out, "<td") {
				r.Violation("wrong:tablerow", desc(), "no cells", o.Out)
			}
			return
		}
		tds := tdRe.FindAllStringSubmatch(o.Out, -1)
		trs := trRe.FindAllStringSubmatch(o.Out, -1)
		var cells []string
		for _, m := range tds {
			cells = append(cells, m[1])
		}
		var want []string
		for k, it := range sel {
			want = append(want, c11RefTrace(it, k+1, len(sel)))
		}
		if strings.Join(cells, "|") != strings.Join(want, "|") {
			r.Violation("wrong:tablerow-cells", desc(), strings.Join(want, "|"), o.Out)
			return
		}
		c := len(sel)
		if col != nil {
			c = *col
		}
		wantRows := (len(sel) + c - 1) / c
		if len(trs) != wantRows {
			r.Violation("wrong:tablerow-rows", desc(), fmt.Sprintf("%d rows", wantRows), o.Out)
			return
		}
		// every row holds <= cols cells, all but the last exactly cols; nothing outside the rows
		rest := o.Out
		for ri, m := range trs {
			k := len(tdRe.FindAllString(m[1], -1))
			if k > c || (ri < len(trs)-1 && k != c) {
				r.Violation("wrong:tablerow-rows", desc(), fmt.Sprintf("rows of %d cells", c), o.Out)
				return
			}
			rest = strings.Replace(rest, m[0], "", 1)
		}
		if strings.TrimSpace(rest) != "" {
			r.Violation("wrong:tablerow-rows", desc(), "all cells inside rows", o.Out)
		}
		r.Class(fmt.Sprintf("tablerow/rows=%d", wantRows))
	}})

	// --- ranges: all endpoint pairs in -3..6
	fams = append(fams, explore.Family{Name: "ranges", Count: 10 * 10 * 2, Run: func(i int64, r *explore.Rec) {
		rx := radix{i}
		asVar, b, a := rx.next(2) == 1, rx.next(10)-3, rx.next(10)-3
		src := fmt.Sprintf("{%% for i in (%d..%d) %%}{{ i }},{%% else %%}E{%% endfor %%}", a, b)
		bind := map[string]any{}
		if asVar {
			src = "{% for i in (a..b) %}{{ i }},{% else %}E{% endfor %}"
			bind["a"], bind["b"] = a, b
		}
		r.Eval()
		r.Transition()
		r.Trace()
		o := Render(c11.eng, src, bind)
		want := ""
		for v := a; v <= b; v++ {
			want += strconv.Itoa(v) + ","
		}
		if want == "" {
			want = "E"
		}
		r.Class("range/" + strconv.FormatBool(b < a))
		if o.Panic != nil || o.Err != nil || o.Out != want {
			r.Violation("wrong:range", map[string]any{"template": src, "a": a, "b": b}, want, o.String())
		}
	}})

	// --- maps: each [key, value] pair exactly once (order is C02's business)
	fams = append(fams, explore.Family{Name: "maps", Count: 5 * 3, Run: func(i int64, r *explore.Rec) {
		n, kind := int(i)%5, int(i)/5
		keys := []string{"k1", "k2", "k3", "k4"}[:n]
		var m any
		switch kind {
		case 0:
			mm := map[string]any{}
			for j, k := range keys {
				mm[k] = j
			}
			m = mm
		case 1:
			mm := map[string]int{}
			for j, k := range keys {
				mm[k] = j
			}
			m = mm
		case 2:
			mm := map[string]string{}
			for j, k := range keys {
				mm[k] = strconv.Itoa(j)
			}
			m = mm
		}
		for _, tag := range []string{"for", "tablerow"} {
			src := "{% " + tag + " kv in m %}<{{ kv[0] }}={{ kv[1] }}>{% end" + tag + " %}"
			if tag == "for" {
				src = "{% for kv in m %}<{{ kv[0] }}={{ kv[1] }}>{% else %}ELSE{% endfor %}"
			}
			r.Eval()
			r.Transition()
			r.Trace()
			o := Render(c11.eng, src, map[string]any{"m": m})
			var want []string
			for j, k := range keys {
				want = append(want, fmt.Sprintf("<%s=%d>", k, j))
			}
			got := regexp.MustCompile(`<k[^>]*>`).FindAllString(o.Out, -1)
			sort.Strings(got)
			if o.Panic != nil || o.Err != nil || strings.Join(got, "") != strings.Join(want, "") || (n == 0 && tag == "for" && o.Out != "ELSE") {
				r.Violation("wrong:map-iteration", map[string]any{"template": src, "entries": n}, strings.Join(want, "")+" in some order (ELSE when empty)", o.String())
			}
			r.Class("map/" + tag + "/" + strconv.Itoa(n))
		}
	}})

	// --- maps: the visiting order is not C11's business, but selection is relative to it: within one render
	// reversed / offset / limit / tablerow over the same map must select from the SAME sequence the plain
	// loop visits (so the order has to be a function of the map, whatever it is).
	const mapMax = 9
	fams = append(fams, explore.Family{Name: "map-selection-law", Count: int64((mapMax + 1) * 4 * 3), Run: func(i int64, r *explore.Rec) {
		rx := radix{i}
		kind, style, n := rx.next(3), rx.next(4), rx.next(mapMax+1)
		keyOf := func(j int) string {
			switch style {
			case 0:
				return fmt.Sprintf("k%d", j)
			case 1:
				return []string{"10", "9", "2xx", "404", "1000", "a", "B", "", "1e3"}[j]
			case 2:
				return strings.Repeat("z", mapMax-j) // descending insertion order
			}
			return []string{"b", "a", "d", "c", "f", "e", "h", "g", "i"}[j]
		}
		var m any
		switch kind {
		case 0:
			mm := map[string]any{}
			for j := 0; j < n; j++ {
				mm[keyOf(j)] = j
			}
			m = mm
		case 1:
			mm := map[string]int{}
			for j := 0; j < n; j++ {
				mm[keyOf(j)] = j
			}
			m = mm
		case 2:
			mm := map[any]any{}
			for j := 0; j < n; j++ {
				mm[keyOf(j)] = j
			}
			m = mm
		}
		item := "{{ kv[1] }}:{{ forloop.index }},"
		// an item kept by assign keeps ITS value while the loop moves on (first item, previous item)
		keepSrc := "{% for kv in m %}{% if forloop.first %}{% assign keep = kv %}{% endif %}<{{ prev[1] }}>{% assign prev = kv %}{% endfor %}#{{ keep[1] }}#{{ keep[0] }}"
		{
			r.Eval()
			ok := Render(c11.eng, keepSrc, map[string]any{"m": m})
			plain := Render(c11.eng, "{% for kv in m %}{{ kv[1] }},{% endfor %}#{% for kv in m limit: 1 %}{{ kv[1] }}#{{ kv[0] }}{% endfor %}", map[string]any{"m": m})
			if ok.Err == nil && plain.Err == nil && n > 0 {
				vals := strings.Split(strings.SplitN(plain.Out, "#", 2)[0], ",")
				want := "<>"
				for k := 0; k+2 < len(vals); k++ {
					want += "<" + vals[k] + ">"
				}
				want += "#" + strings.SplitN(plain.Out, "#", 2)[1]
				if ok.Out != want {
					r.Violation("wrong:map-selection:item-kept-by-assign", map[string]any{"template": keepSrc, "entries": n, "key_style": style, "map_kind": kind}, want, ok.Out)
				}
			}
		}
		src := "{% for kv in m %}" + item + "{% endfor %}|{% for kv in m reversed %}" + item + "{% endfor %}|" +
			"{% for kv in m offset: 1 %}" + item + "{% endfor %}|{% for kv in m limit: 2 %}" + item + "{% endfor %}|" +
			"{% for kv in m reversed offset: 1 limit: 2 %}" + item + "{% endfor %}|{% tablerow kv in m cols: 2 %}" + item + "{% endtablerow %}|" +
			"{% for kv in m %}" + item + "{% endfor %}|"
		desc := map[string]any{"template": src, "entries": n, "key_style": style, "map_kind": kind}
		for rep := 0; rep < 3; rep++ {
			r.Eval()
			r.Transition()
			r.Trace()
			o := Render(c11.eng, src, map[string]any{"m": m})
			if o.Panic != nil || o.Err != nil {
				r.Violation("wrong:map-selection", desc, "output", o.String())
				return
			}
			parts := strings.Split(regexp.MustCompile(`</?t[rd][^>]*>|\n`).ReplaceAllString(o.Out, ""), "|")
			if len(parts) != 8 {
				r.Violation("wrong:map-selection", desc, "8 sections", o.String())
				return
			}
			seq := func(p string) []string { // values in visiting order; the index after ':' must count 1,2,3..
				var vs []string
				for k, it := range strings.Split(strings.TrimSuffix(p, ","), ",") {
					if it == "" {
						continue
					}
					vi := strings.SplitN(it, ":", 2)
					if len(vi) != 2 || vi[1] != strconv.Itoa(k+1) {
						return []string{"bad-index:" + it}
					}
					vs = append(vs, vi[0])
				}
				return vs
			}
			S := seq(parts[0])
			rev := func(a []string) []string {
				out := make([]string, len(a))
				for k := range a {
					out[len(a)-1-k] = a[k]
				}
				return out
			}
			cut := func(a []string, off, lim int) []string {
				if off > len(a) {
					off = len(a)
				}
				a = a[off:]
				if lim >= 0 && lim < len(a) {
					a = a[:lim]
				}
				return a
			}
			want := [][]string{S, rev(S), cut(S, 1, -1), cut(S, 0, 2), cut(rev(S), 1, 2), S, S}
			names := []string{"plain", "reversed", "offset: 1", "limit: 2", "reversed offset: 1 limit: 2", "tablerow", "plain again"}
			seen := map[string]bool{}
			for _, v := range S {
				seen[v] = true
			}
			if len(S) != n || len(seen) != n {
				r.Violation("wrong:map-selection:each-pair-once", desc, fmt.Sprintf("%d distinct pairs", n), o.String())
				return
			}
			for k := range want {
				if strings.Join(seq(parts[k]), ",") != strings.Join(want[k], ",") {
					r.Violation("wrong:map-selection:"+names[k], desc, names[k]+" selects from the sequence the plain loop visits: "+strings.Join(want[k], ","), parts[k]+"  (whole output: "+o.Out+")")
					return
				}
			}
		}
		r.Class(fmt.Sprintf("map-law/n%d", n))
	}})

	// --- nothing selected -> else
	type emptyCase struct {
		name string
		expr string
		bind map[string]any
	}
	empties := []emptyCase{
		{"nil", "v", map[string]any{"v": nil}}, {"nil-literal", "nil", nil}, {"undefined", "undefined_name", nil},
		{"empty []any", "v", map[string]any{"v": []any{}}}, {"empty []int", "v", map[string]any{"v": []int{}}},
		{"empty map", "v", map[string]any{"v": map[string]any{}}}, {"empty range", "(5..1)", nil}, {"empty range vars", "(a..b)", map[string]any{"a": 2, "b": 1}},
		{"nil property", "v.missing", map[string]any{"v": map[string]any{}}}, {"nil element", "v[7]", map[string]any{"v": []any{1}}},
		{"offset past end", "v offset: 3", map[string]any{"v": []any{1, 2, 3}}}, {"limit 0", "v limit: 0", map[string]any{"v": []any{1, 2, 3}}},
		{"nil reversed", "v reversed", map[string]any{"v": nil}}, {"nil with limit", "v limit: 2", map[string]any{"v": nil}},
	}
	fams = append(fams, explore.Family{Name: "else-when-nothing-selected", Count: int64(len(empties)), Run: func(i int64, r *explore.Rec) {
		e := empties[i]
		src := "{% for x in " + e.expr + " %}BODY{% else %}ELSE{% endfor %}"
		b := map[string]any{}
		for k, v := range e.bind {
			b[k] = v
		}
		r.Eval()
		r.Transition()
		r.Trace()
		o := Render(c11.eng, src, b)
		r.Class("else/" + e.name)
		if o.Panic != nil || o.Err != nil || o.Out != "ELSE" {
			r.Violation("wrong:else:"+e.name, map[string]any{"template": src, "collection": e.name}, "ELSE", o.String())
		}
	}})

	// --- offset and limit far beyond the length ("no limit" spelled as the largest integer, offsets of the same
	// size): skip o then take n must not overflow
	hugeMods := []int{-99, 0, 1, 2, math.MaxInt64, math.MaxInt64 - 1, 1 << 62, 1 << 31, math.MaxInt32}
	fams = append(fams, explore.Family{Name: "huge-offset-and-limit", Count: int64(len(hugeMods) * len(hugeMods) * 2 * 2 * 4 * 2), Run: func(i int64, r *explore.Rec) {
		rx := radix{i}
		sp, n, rev, tag := []string{"literal", "variable"}[rx.next(2)], []int{0, 1, 3, 5}[rx.next(4)], rx.next(2) == 1, []string{"for", "tablerow"}[rx.next(2)]
		lim, off := hugeMods[rx.next(len(hugeMods))], hugeMods[rx.next(len(hugeMods))]
		var offp, limp *int
		if off != -99 {
			offp = &off
		}
		if lim != -99 {
			limp = &lim
		}
		coll, bind := c11Collection("[]any", n)
		ms, mb := modStr(rev, offp, limp, sp)
		for k, v := range mb {
			bind[k] = v
		}
		src := "{% for x in " + coll + " " + ms + " %}" + c11Trace + "{% else %}ELSE{% endfor %}"
		if tag == "tablerow" {
			src = "{% tablerow x in " + coll + " " + ms + " cols: 2 %}" + c11Trace + "{% endtablerow %}"
		}
		r.Eval()
		r.Transition()
		r.Trace()
		o := Render(c11.eng, src, bind)
		sel, _ := c11Select(items(n), rev, offp, limp)
		var sb strings.Builder
		for k, it := range sel {
			sb.WriteString(c11RefTrace(it, k+1, len(sel)))
		}
		want, got := sb.String(), o.Out
		if tag == "tablerow" {
			got = strings.ReplaceAll(c12TableTags.ReplaceAllString(got, ""), "\n", "")
		} else if len(sel) == 0 {
			want = "ELSE"
		}
		r.Class("huge-modifiers/" + tag)
		if o.Panic != nil || o.Err != nil || got != want {
			r.Violation("wrong:"+tag+":huge-offset-or-limit", map[string]any{"template": src, "n": n, "bindings": fmt.Sprint(mb)}, want, o.String())
		}
	}})

	// --- scaled: long collections with offset/limit at the boundaries of the length
	bigN := []int{8, 9, 15, 16, 17, 31, 32, 33, 63, 64, 65, 100, 127, 128, 129, 255, 256, 257, 1000, 1024, 4097}
	fams = append(fams, explore.Family{Name: "for-scaled", Count: int64(len(bigN) * 2 * 3 * 2), Run: func(i int64, r *explore.Rec) {
		rx := radix{i}
		tag, rp, rev, n := []string{"for", "tablerow"}[rx.next(2)], []string{"[]any", "[]int", "range-literal"}[rx.next(3)], rx.next(2) == 1, bigN[rx.next(len(bigN))]
		for _, off := range []int{-99, 0, 1, n / 2, n - 1, n, n + 1} {
			for _, lim := range []int{-99, 0, 1, n / 2, n - 1, n, n + 1} {
				var offp, limp *int
				if off != -99 {
					o := off
					offp = &o
				}
				if lim != -99 {
					l := lim
					limp = &l
				}
				coll, bind := c11Collection(rp, n)
				ms, _ := modStr(rev, offp, limp, "literal")
				var src string
				if tag == "for" {
					src = "{% for x in " + coll + " " + ms + " %}" + c11Trace + "{% if forloop.index == 1000 %}{% break %}{% endif %}{% else %}ELSE{% endfor %}"
				} else {
					src = "{% tablerow x in " + coll + " " + ms + " cols: 7 %}" + c11Trace + "{% endtablerow %}"
				}
				r.Eval()
				r.Transition()
				r.Trace()
				o := Render(c11.eng, src, bind)
				desc := func() any { return map[string]any{"template": src, "n": n, "representation": rp} }
				sel, _ := c11Select(items(n), rev, offp, limp)
				var sb strings.Builder
				for k, it := range sel {
					sb.WriteString(c11RefTrace(it, k+1, len(sel)))
					if k+1 == 1000 {
						break
					}
				}
				want := sb.String()
				got := o.Out
				if tag == "tablerow" {
					got = c12TableTags.ReplaceAllString(got, "")
					if len(sel) > 0 {
						if rows := strings.Count(o.Out, "<tr"); rows != (len(sel)+6)/7 {
							r.Violation("wrong:scaled-tablerow-rows", desc(), fmt.Sprintf("%d rows", (len(sel)+6)/7), fmt.Sprint(rows))
						}
					}
					if len(sel) >= 1000 {
						continue // the break is not part of the tablerow body here
					}
				} else if len(sel) == 0 {
					want = "ELSE"
				}
				if o.Panic != nil || o.Err != nil || got != want {
					r.Violation("wrong:scaled-"+tag, desc(), trunc80(want), trunc80(o.String()))
				}
			}
		}
		r.Class(fmt.Sprintf("scaled/%s/%d", tag, n))
		r.State(fmt.Sprintf("scaled:n=%d", n))
	}})

	// --- nested loops with break/continue and cycle at every level
	fams = append(fams, c11Nested(tier)...)
	return fams
}

// ---- nested programs

type c11Level struct {
	length  int    // iterations (1..3)
	control int    // 0 none, 1..3 break at k, 4..6 continue at k
	cycle   int    // 0 none, 1: cycle 'a','b' ; 2: cycle 'g': 'p','q','r' ; 3: both
	pos     int    // control before (0) or after (1) the inner loop
	tag     string // for | tablerow is not nested here
}

const (
	nCtl = 7
	nCyc = 4
)

func c11Gen(levels []c11Level, d int) string {
	l := levels[d]
	v := "v" + strconv.Itoa(d)
	var sb strings.Builder
	sb.WriteString(fmt.Sprintf("{%% for %s in (1..%d) %%}", v, l.length))
	switch l.cycle {
	case 1:
		sb.WriteString("{% cycle 'a', 'b' %}")
	case 2:
		sb.WriteString(fmt.Sprintf("{%% cycle 'g%d': 'p', 'q', 'r' %%}", d))
	case 3:
		sb.WriteString(fmt.Sprintf("{%% cycle 'a', 'b' %%}{%% cycle 'g%d': 'p', 'q', 'r' %%}", d))
	}
	ctl := ""
	switch {
	case l.control >= 1 && l.control <= 3:
		ctl = fmt.Sprintf("{%% if forloop.index == %d %%}{%% break %%}{%% endif %%}", l.control)
	case l.control >= 4:
		ctl = fmt.Sprintf("{%% if forloop.index == %d %%}{%% continue %%}{%% endif %%}", l.control-3)
	}
	sb.WriteString(fmt.Sprintf("(%d:{{ %s }}/{{ forloop.index }}/{{ forloop.length }}", d, v))
	if l.pos == 0 {
		sb.WriteString(ctl)
	}
	if d+1 < len(levels) {
		sb.WriteString(c11Gen(levels, d+1))
	}
	if l.pos == 1 {
		sb.WriteString(ctl)
	}
	// after the inner loop the outer forloop must be back
	sb.WriteString(fmt.Sprintf("~{{ forloop.index }})"))
	sb.WriteString("{% endfor %}")
	return sb.String()
}

func c11Ref(levels []c11Level, d int) string {
	l := levels[d]
	var sb strings.Builder
	ca, cg := 0, 0
	for i := 1; i <= l.length; i++ {
		if l.cycle == 1 || l.cycle == 3 {
			sb.WriteString([]string{"a", "b"}[ca%2])
			ca++
		}
		if l.cycle >= 2 {
			sb.WriteString([]string{"p", "q", "r"}[cg%3])
			cg++
		}
		sb.WriteString(fmt.Sprintf("(%d:%d/%d/%d", d, i, i, l.length))
		brk, cont := false, false
		ctl := func() {
			if l.control >= 1 && l.control <= 3 && i == l.control {
				brk = true
			}
			if l.control >= 4 && i == l.control-3 {
				cont = true
			}
		}
		if l.pos == 0 {
			ctl()
		}
		if !brk && !cont {
			if d+1 < len(levels) {
				sb.WriteString(c11Ref(levels, d+1))
			}
			if l.pos == 1 {
				ctl()
			}
		}
		if brk {
			break
		}
		if cont {
			continue
		}
		sb.WriteString(fmt.Sprintf("~%d)", i))
	}
	return sb.String()
}

func c11Nested(tier string) []explore.Family {
	per := 3 * nCtl * nCyc * 2
	var fams []explore.Family
	maxD := 2
	if tier == "thorough" {
		maxD = 3
	}
	for d := 1; d <= maxD; d++ {
		d := d
		cnt := int64(1)
		for j := 0; j < d; j++ {
			cnt *= int64(per)
		}
		fams = append(fams, explore.Family{Name: fmt.Sprintf("nested-depth%d", d), Count: cnt, Run: func(i int64, r *explore.Rec) {
			rx := radix{i}
			levels := make([]c11Level, d)
			for j := range levels {
				levels[j] = c11Level{length: rx.next(3) + 1, control: rx.next(nCtl), cycle: rx.next(nCyc), pos: rx.next(2)}
			}
			src := c11Gen(levels, 0)
			want := c11Ref(levels, 0)
			r.Eval()
			r.Transition()
			r.Trace()
			o := Render(c11.eng, src, map[string]any{})
			r.Class(fmt.Sprintf("nested/d%d/len%d", d, len(want)/20))
			r.State(fmt.Sprintf("nested:%d", d))
			if o.Panic != nil || o.Err != nil || o.Out != want {
				r.Violation(fmt.Sprintf("wrong:nested-depth%d", d), map[string]any{"template": src}, want, o.String())
			}
			if r.WantSample() {
				r.Sample(map[string]any{"template": src, "observed": o.String()})
			}
		}})
	}
	return fams
}

func init() {
	explore.Register(&explore.Prop{
		ID:    "C11",
		Level: "model_checking",
		Rule: "for: collection length 0..5 (quick) / 0..7 (thorough) x offset {absent,-1..6|8} x limit {absent,-1..6|8} x reversed x 10 body variants (plain, break/continue at item 1..3, inner-loop break/continue, break inside nested blocks) x 5 collection representations x 3 modifier spellings; " +
			"tablerow: same grid x cols {absent,0..4}; scaled: 21 lengths from 8 to 4097 (around powers of two) x offset/limit at {absent,0,1,n/2,n-1,n,n+1} x reversed x for/tablerow x 3 representations; ranges: all endpoint pairs in -3..6; maps of 0..4 entries; 14 nothing-selected cases; all nested loop programs of depth <=2 (quick) / <=3 (thorough) with length 1..3, break/continue at every index before/after the inner loop and 4 cycle variants per level; " +
			"oracle = reference selection (reverse, skip, take) + forloop formulas + a reference interpreter for the nested programs; state = (length, |selected|); transition = one loop program rendered",
		Assumptions: []string{
			"negative offset/limit and cols: 0 are unspecified (no panic required only)",
			"cycle counters restart with every execution of a loop (per-loop state as described in the anchors); at most one cycle tag per group (named or unnamed) and loop body: what two tags of one group with value lists of different lengths emit is not decided by the statement",
			"tablerow class names are not compared; tablerow has no else clause in this grammar",
		},
		Setup: func(string) {
			c11.eng = liquid.NewEngine()
			// an application tag that reads the loop state through the render context: the body's TEXT mentions neither forloop nor x
			c11.eng.RegisterTag("looptrace", func(ctx render.Context) (string, error) {
				var parts []string
				for _, e := range []string{"x", "forloop.index", "forloop.index0", "forloop.rindex", "forloop.rindex0", "forloop.length", "forloop.first", "forloop.last"} {
					v, err := ctx.EvaluateString(e)
					if err != nil {
						return "", err
					}
					parts = append(parts, fmt.Sprint(v))
				}
				return "[" + parts[0] + ":" + strings.Join(parts[1:], ",") + "]", nil
			})
			if _, err := c11.eng.ParseTemplateAndCache([]byte(c11Trace), c11TraceFile, 1); err != nil {
				panic(explore.BaselineFailure{Msg: "harness: " + err.Error()})
			}
		},
		Families: c11Families,
		Bound: func(tier string) string {
			if tier == "thorough" {
				return "n<=7, offset/limit in -1..8, nested depth <=3"
			}
			return "n<=5, offset/limit in -1..6, nested depth <=2"
		},
	})
}
