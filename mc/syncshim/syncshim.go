// Package syncshim is a cooperative stand-in for package sync, used ONLY in the C04 scheduler build: a
// build-time overlay (tools/overlay.sh sched) rewrites `"sync"` imports of the repository under test to this
// package, so that every lock, once, pool and concurrent-map operation the code uses becomes a scheduling point
// owned by the harness, and blocking is visible to the scheduler (no enabled goroutine = deadlock). Outside a
// controlled execution the types work for a single goroutine (world construction, solo baselines).
package syncshim

import (
	"verifmc/sched"
)

func point(label string) {
	if s := sched.Current; s.Active() {
		s.Point(label)
	}
}

func wait(label string, ready func() bool) {
	if ready() {
		return
	}
	s := sched.Current
	if !s.Active() {
		panic("syncshim: " + label + " would block outside a controlled execution")
	}
	for !ready() {
		s.Wait(label, ready)
	}
}

// Locker mirrors sync.Locker.
type Locker interface {
	Lock()
	Unlock()
}

type Mutex struct{ held bool }

func (m *Mutex) Lock() {
	point("Mutex.Lock")
	wait("Mutex.Lock(blocked)", func() bool { return !m.held })
	m.held = true
}

func (m *Mutex) TryLock() bool {
	point("Mutex.TryLock")
	if m.held {
		return false
	}
	m.held = true
	return true
}

func (m *Mutex) Unlock() {
	if !m.held {
		panic("sync: unlock of unlocked mutex")
	}
	m.held = false
	point("Mutex.Unlock")
}

type RWMutex struct {
	writer  bool
	readers int
}

func (m *RWMutex) Lock() {
	point("RWMutex.Lock")
	wait("RWMutex.Lock(blocked)", func() bool { return !m.writer && m.readers == 0 })
	m.writer = true
}
func (m *RWMutex) Unlock() {
	if !m.writer {
		panic("sync: Unlock of unlocked RWMutex")
	}
	m.writer = false
	point("RWMutex.Unlock")
}
func (m *RWMutex) RLock() {
	point("RWMutex.RLock")
	wait("RWMutex.RLock(blocked)", func() bool { return !m.writer })
	m.readers++
}
func (m *RWMutex) RUnlock() {
	if m.readers <= 0 {
		panic("sync: RUnlock of unlocked RWMutex")
	}
	m.readers--
	point("RWMutex.RUnlock")
}
func (m *RWMutex) TryLock() bool {
	point("RWMutex.TryLock")
	if m.writer || m.readers > 0 {
		return false
	}
	m.writer = true
	return true
}
func (m *RWMutex) TryRLock() bool {
	point("RWMutex.TryRLock")
	if m.writer {
		return false
	}
	m.readers++
	return true
}
func (m *RWMutex) RLocker() Locker { return rlocker{m} }

type rlocker struct{ m *RWMutex }

func (r rlocker) Lock()   { r.m.RLock() }
func (r rlocker) Unlock() { r.m.RUnlock() }

type Once struct {
	done, running bool
}

func (o *Once) Do(f func()) {
	point("Once.Do")
	if o.done {
		return
	}
	if o.running {
		// a second caller while the first is inside f blocks until it has finished
		wait("Once.Do(blocked)", func() bool { return o.done })
		return
	}
	o.running = true
	defer func() { o.done, o.running = true, false }()
	f()
}

// Pool is a deterministic LIFO pool: an object put back is handed to the very next Get, whichever
// goroutine asks - the worst case a real sync.Pool allows.
type Pool struct {
	New   func() any
	items []any
}

func (p *Pool) Get() any {
	point("Pool.Get")
	if n := len(p.items); n > 0 {
		x := p.items[n-1]
		p.items = p.items[:n-1]
		return x
	}
	if p.New != nil {
		return p.New()
	}
	return nil
}

func (p *Pool) Put(x any) {
	point("Pool.Put")
	if x == nil {
		return
	}
	p.items = append(p.items, x)
	// a second point AFTER the object is back in the pool: code that keeps using it after Put
	// (use-after-Put) is then interleaved with the next Get deterministically
	point("Pool.Put(done)")
}

// Map mirrors sync.Map; every operation is a scheduling point.
type Map struct {
	m     map[any]any
	order []any
}

func (m *Map) Load(k any) (any, bool) {
	point("Map.Load")
	v, ok := m.m[k]
	return v, ok
}
func (m *Map) Store(k, v any) {
	point("Map.Store")
	if m.m == nil {
		m.m = map[any]any{}
	}
	if _, ok := m.m[k]; !ok {
		m.order = append(m.order, k)
	}
	m.m[k] = v
}
func (m *Map) LoadOrStore(k, v any) (any, bool) {
	point("Map.LoadOrStore")
	if old, ok := m.m[k]; ok {
		return old, true
	}
	if m.m == nil {
		m.m = map[any]any{}
	}
	m.order = append(m.order, k)
	m.m[k] = v
	return v, false
}
func (m *Map) LoadAndDelete(k any) (any, bool) {
	point("Map.LoadAndDelete")
	v, ok := m.m[k]
	m.del(k)
	return v, ok
}
func (m *Map) Delete(k any) {
	point("Map.Delete")
	m.del(k)
}
func (m *Map) del(k any) {
	if _, ok := m.m[k]; !ok {
		return
	}
	delete(m.m, k)
	for i, x := range m.order {
		if x == k {
			m.order = append(m.order[:i], m.order[i+1:]...)
			break
		}
	}
}
func (m *Map) Swap(k, v any) (any, bool) {
	point("Map.Swap")
	old, ok := m.m[k]
	if m.m == nil {
		m.m = map[any]any{}
	}
	if !ok {
		m.order = append(m.order, k)
	}
	m.m[k] = v
	return old, ok
}
func (m *Map) CompareAndSwap(k, old, new any) bool {
	point("Map.CompareAndSwap")
	if cur, ok := m.m[k]; ok && cur == old {
		m.m[k] = new
		return true
	}
	return false
}
func (m *Map) CompareAndDelete(k, old any) bool {
	point("Map.CompareAndDelete")
	if cur, ok := m.m[k]; ok && cur == old {
		m.del(k)
		return true
	}
	return false
}
func (m *Map) Range(f func(k, v any) bool) {
	point("Map.Range")
	for _, k := range append([]any{}, m.order...) {
		if v, ok := m.m[k]; ok {
			if !f(k, v) {
				return
			}
		}
	}
}
func (m *Map) Clear() {
	point("Map.Clear")
	m.m, m.order = nil, nil
}

type WaitGroup struct{ n int }

func (w *WaitGroup) Add(d int) {
	w.n += d
	if w.n < 0 {
		panic("sync: negative WaitGroup counter")
	}
	point("WaitGroup.Add")
}
func (w *WaitGroup) Done() { w.Add(-1) }
func (w *WaitGroup) Wait() {
	point("WaitGroup.Wait")
	wait("WaitGroup.Wait(blocked)", func() bool { return w.n == 0 })
}

// OnceFunc / OnceValue helpers are not provided; a repository using them (or sync.Cond) makes the overlay
// build fail and the check falls back to the ordinary build (see ./check).
