// Command mc is the single verification binary: `mc <ID> quick|thorough`,
// `mc --replay <file>`, and (internal) `mc --worker <ID> --tier t --shard k/n`.
package main

import (
	"fmt"
	"os"
	"strconv"
	"strings"
	"time"

	"verifmc/explore"
	"verifmc/props"
)

func main() {
	args := os.Args[1:]
	if len(args) == 0 {
		fmt.Fprintln(os.Stderr, "usage: mc <ID> quick|thorough | mc --replay <file> | mc --list")
		os.Exit(2)
	}
	self, _ := os.Executable()
	switch args[0] {
	case "--list":
		for _, id := range explore.IDs() {
			fmt.Println(id)
		}
		return
	case "--race-prog":
		// mc --race-prog <tier> <index>  (only meaningful in the -race build)
		i, _ := strconv.Atoi(args[2])
		props.C04RaceProg(args[1], i)
		return
	case "--digest":
		p := explore.Lookup(args[1])
		if p == nil || p.Digest == nil {
			os.Exit(2)
		}
		if p.Setup != nil {
			p.Setup("quick")
		}
		for _, l := range p.Digest() {
			fmt.Println(l)
		}
		return
	case "--replay":
		os.Exit(explore.Replay(args[1]))
	case "--count":
		p := explore.Lookup(args[1])
		for _, f := range p.Families(args[2]) {
			fmt.Printf("%-28s %d\n", f.Name, f.Count)
		}
		return
	case "--one":
		// mc --one ID tier family index
		p := explore.Lookup(args[1])
		idx, _ := strconv.ParseInt(args[4], 10, 64)
		r := explore.RunOne(p, args[2], args[3], idx)
		for _, v := range r.Violations {
			fmt.Printf("VIOLATION key=%s\n case=%v\n expected=%s\n observed=%s\n", v.Key, v.Case, v.Expected, v.Observed)
		}
		fmt.Printf("evaluations=%d classes=%v\n", r.Evaluations, r.Classes)
		return
	case "--worker":
		var id, tier string
		var k, n int
		var trace bool
		var deadline time.Time
		id = args[1]
		for i := 2; i < len(args); i++ {
			switch args[i] {
			case "--tier":
				i++
				tier = args[i]
			case "--shard":
				i++
				parts := strings.Split(args[i], "/")
				k, _ = strconv.Atoi(parts[0])
				n, _ = strconv.Atoi(parts[1])
			case "--trace":
				trace = true
			case "--deadline":
				i++
				u, _ := strconv.ParseInt(args[i], 10, 64)
				deadline = time.Unix(u, 0)
			}
		}
		p := explore.Lookup(id)
		if p == nil {
			fmt.Fprintln(os.Stderr, "unknown property", id)
			os.Exit(2)
		}
		explore.RunWorker(p, tier, k, n, trace, deadline)
		return
	}
	id := args[0]
	tier := "quick"
	if len(args) > 1 {
		tier = args[1]
	}
	if t := os.Getenv("VERIF_TIER"); t != "" && len(args) < 2 {
		tier = t
	}
	p := explore.Lookup(id)
	if p == nil {
		fmt.Fprintln(os.Stderr, "unknown property", id)
		os.Exit(2)
	}
	os.Exit(explore.Coordinate(self, p, tier))
}
