// Package explore is the generic bounded-exhaustive exploration machinery:
// a property declares finite families of cases (index -> case); a coordinator
// shards every family over worker sub-processes; each worker runs the real
// implementation on every case of its shard and records outcome classes,
// model states/transitions, samples and violations; the coordinator merges,
// classifies violations against known_findings.json, writes replay files and
// the evidence file.
package explore

import (
	"fmt"
	"runtime"
	"sort"
	"strings"
)

// A Violation is one failing case.
type Violation struct {
	Key      string `json:"key"`    // identifies the *specific* failure (known-finding matching)
	Family   string `json:"family"` // family name
	Index    int64  `json:"index"`  // case index inside the family
	Case     any    `json:"case"`   // human-readable description of the case
	Expected string `json:"expected"`
	Observed string `json:"observed"`
}

// Rec is the per-worker recorder handed to every case.
type Rec struct {
	Evaluations int64               `json:"evaluations"`
	Traces      int64               `json:"traces"`
	Transitions int64               `json:"transitions"`
	Classes     map[string]int64    `json:"classes"`
	States      map[string]struct{} `json:"-"`
	StateList   []string            `json:"states"`
	Samples     map[string][]any    `json:"samples"`
	Violations  []Violation         `json:"violations"`
	VioCount    int64               `json:"vio_count"`
	VioKeys     map[string]int64    `json:"vio_keys"`
	Incomplete  []string            `json:"incomplete"` // families cut by the time budget
	Notes       []string            `json:"notes"`
	Extra       map[string]int64    `json:"extra"`

	curFamily string
	curIndex  int64
}

func NewRec() *Rec {
	return &Rec{Classes: map[string]int64{}, States: map[string]struct{}{}, Samples: map[string][]any{},
		VioKeys: map[string]int64{}, Extra: map[string]int64{}}
}

// Eval counts one execution of the implementation.
func (r *Rec) Eval() { r.Evaluations++ }

// Trace counts one model trace that was validated against the implementation.
func (r *Rec) Trace() { r.Traces++ }

// Class records an outcome class (used to show the exploration is not vacuous).
func (r *Rec) Class(c string) {
	if len(r.Classes) < 20000 || r.Classes[c] > 0 {
		r.Classes[c]++
	}
}

// State records a canonical model state.
func (r *Rec) State(s string) {
	if len(r.States) < 2000000 {
		r.States[s] = struct{}{}
	}
}

// Transition counts one model transition.
func (r *Rec) Transition() { r.Transitions++ }

func (r *Rec) Count(name string, n int64) { r.Extra[name] += n }

// Sample keeps up to 3 sample cases per family.
func (r *Rec) Sample(c any) {
	if len(r.Samples[r.curFamily]) < 3 {
		r.Samples[r.curFamily] = append(r.Samples[r.curFamily], c)
	}
}

// WantSample tells whether another sample is wanted for the current family
// (so that a case need not build its description otherwise).
func (r *Rec) WantSample() bool { return len(r.Samples[r.curFamily]) < 3 }

// Violation records a failing case. Only the first few per key are kept in full.
func (r *Rec) Violation(key string, c any, expected, observed string) {
	r.VioCount++
	r.VioKeys[key]++
	if r.VioKeys[key] <= 2 && len(r.Violations) < 400 {
		r.Violations = append(r.Violations, Violation{Key: key, Family: r.curFamily, Index: r.curIndex,
			Case: c, Expected: trunc(expected), Observed: trunc(observed)})
	}
}

func trunc(s string) string {
	if len(s) > 2000 {
		return s[:2000] + "…"
	}
	return s
}

// Family is a finite indexed set of cases.
type Family struct {
	Name  string
	Count int64
	// Run executes case i against the real implementation and checks the oracle.
	Run func(i int64, r *Rec)
	// Stride, when >0, makes a worker own contiguous blocks of that many cases
	// (families whose cases share expensive setup per block).
	Stride int64
}

// Prop is one property's check.
type Prop struct {
	ID          string
	Level       string // exploration | fault_enumeration | model_checking
	Rule        string
	Assumptions []string
	Families    func(tier string) []Family
	// Bound describes the bound completed for the tier.
	Bound func(tier string) string
	// Setup runs once per worker before any case.
	Setup func(tier string)
	// Digest, when set, is computed in two fresh processes by the coordinator; the lines must agree.
	Digest func() []string
	// Teardown runs once per worker after the last case.
	Teardown func()
	// Post may add coordinator-level results after the merge.
	Post func(tier string, merged *Rec)
}

var registry = map[string]*Prop{}

func Register(p *Prop) { registry[p.ID] = p }
func Lookup(id string) *Prop {
	return registry[id]
}
func IDs() []string {
	var out []string
	for k := range registry {
		out = append(out, k)
	}
	sort.Strings(out)
	return out
}

// BaselineFailure is panicked by a property when a construct that must work on any correct tree
// (parsing one of the harness's own valid templates, a fault-free or all-generic render) fails:
// that is a property violation of the tree under test, not a harness error, and the worker
// records it as one.
type BaselineFailure struct{ Msg string }

// Panic describes a recovered panic of the implementation.
type Panic struct {
	Value string
	Frame string // first stack frame inside github.com/osteele/liquid (pkg.func)
}

func (p *Panic) Key() string { return "panic:" + p.Frame + ":" + panicClass(p.Value) }

func panicClass(v string) string {
	switch {
	case strings.Contains(v, "slice bounds out of range"):
		return "slice-bounds"
	case strings.Contains(v, "index out of range"):
		return "index-range"
	case strings.Contains(v, "nil pointer dereference"), strings.Contains(v, "nil map"):
		return "nil-deref"
	case strings.Contains(v, "interface conversion"):
		return "type-assertion"
	case strings.Contains(v, "hash of unhashable"), strings.Contains(v, "comparing uncomparable"):
		return "uncomparable"
	case strings.Contains(v, "makeslice"):
		return "makeslice"
	case strings.Contains(v, "error parsing regexp"):
		return "regexp"
	case strings.Contains(v, "strconv."):
		return "strconv"
	case strings.Contains(v, "reflect"):
		return "reflect"
	case strings.Contains(v, "sourceless node"):
		return "sourceless"
	}
	if len(v) > 40 {
		v = v[:40]
	}
	return v
}

// Safe runs f and returns a non-nil *Panic if it panicked.
func Safe(f func()) (p *Panic) {
	defer func() {
		if v := recover(); v != nil {
			p = &Panic{Value: fmt.Sprint(v), Frame: repoFrame()}
			// expression.Evaluate re-panics foreign errors with the original stack as text
			if i := strings.Index(p.Value, "\nOriginal stacktrace:"); i >= 0 {
				if f := frameFromText(p.Value[i:]); f != "" {
					p.Frame = f
				}
				p.Value = p.Value[:i]
			}
			if len(p.Value) > 300 {
				p.Value = p.Value[:300]
			}
		}
	}()
	f()
	return nil
}

// frameFromText finds the first repository frame below the panic() call in a
// textual goroutine stack.
func frameFromText(st string) string {
	lines := strings.Split(st, "\n")
	seenPanic := false
	for _, l := range lines {
		if strings.HasPrefix(l, "panic(") {
			seenPanic = true
			continue
		}
		if !seenPanic || strings.HasPrefix(l, "\t") {
			continue
		}
		if strings.HasPrefix(l, "github.com/osteele/liquid") {
			f := l
			if i := strings.LastIndex(f, "("); i >= 0 {
				f = f[:i]
			}
			f = strings.TrimPrefix(f, "github.com/osteele/liquid/")
			f = strings.TrimPrefix(f, "github.com/osteele/liquid.")
			return f
		}
	}
	return ""
}

func repoFrame() string {
	pcs := make([]uintptr, 64)
	n := runtime.Callers(3, pcs)
	frames := runtime.CallersFrames(pcs[:n])
	for {
		fr, more := frames.Next()
		if strings.Contains(fr.Function, "github.com/osteele/liquid") {
			f := strings.TrimPrefix(fr.Function, "github.com/osteele/liquid/")
			f = strings.TrimPrefix(f, "github.com/osteele/liquid.")
			// strip closure suffixes: filters.AddStandardFilters.func29 stays (identifies the filter)
			return f
		}
		if !more {
			break
		}
	}
	return "?"
}
