package explore

import (
	"fmt"
	"hash/fnv"
	"reflect"
	"sort"
	"strings"
	"unsafe"
)

// Snapshot returns a canonical textual image of everything reachable from v:
// it follows pointers and interfaces, records slices up to their capacity (so a
// write past len is visible), maps with sorted keys, struct fields including
// unexported ones, and pointer identity (aliasing) as visit numbers. Function
// values are recorded by code pointer.
func Snapshot(v any) string {
	s := &snapshotter{seen: map[uintptr]int{}}
	s.walk(reflect.ValueOf(v), 0)
	return s.sb.String()
}

// SnapshotHash is a short hash of Snapshot.
func SnapshotHash(v any) string {
	h := fnv.New64a()
	h.Write([]byte(Snapshot(v)))
	return fmt.Sprintf("%016x", h.Sum64())
}

type snapshotter struct {
	sb   strings.Builder
	seen map[uintptr]int
}

func (s *snapshotter) ref(p uintptr) (int, bool) {
	if id, ok := s.seen[p]; ok {
		return id, true
	}
	id := len(s.seen) + 1
	s.seen[p] = id
	return id, false
}

func (s *snapshotter) walk(v reflect.Value, depth int) {
	if depth > 40 {
		s.sb.WriteString("<deep>")
		return
	}
	if !v.IsValid() {
		s.sb.WriteString("nil")
		return
	}
	switch v.Kind() {
	case reflect.Interface:
		if v.IsNil() {
			s.sb.WriteString("nil")
			return
		}
		s.walk(v.Elem(), depth+1)
	case reflect.Ptr:
		if v.IsNil() {
			s.sb.WriteString("nilptr")
			return
		}
		id, dup := s.ref(v.Pointer())
		fmt.Fprintf(&s.sb, "&%d", id)
		if dup {
			return
		}
		s.sb.WriteString("(")
		s.walk(v.Elem(), depth+1)
		s.sb.WriteString(")")
	case reflect.Slice:
		if v.IsNil() {
			s.sb.WriteString("nilslice")
			return
		}
		id, _ := s.ref(v.Pointer())
		fmt.Fprintf(&s.sb, "%s@%d[len=%d cap=%d:", v.Type(), id, v.Len(), v.Cap())
		full := v.Slice(0, v.Cap())
		if v.Type().Elem().Kind() == reflect.Uint8 {
			fmt.Fprintf(&s.sb, "%x", full.Bytes())
		} else {
			for i := 0; i < full.Len(); i++ {
				s.walk(full.Index(i), depth+1)
				s.sb.WriteString(",")
			}
		}
		s.sb.WriteString("]")
	case reflect.Array:
		fmt.Fprintf(&s.sb, "%s[", v.Type())
		for i := 0; i < v.Len(); i++ {
			s.walk(v.Index(i), depth+1)
			s.sb.WriteString(",")
		}
		s.sb.WriteString("]")
	case reflect.Map:
		if v.IsNil() {
			s.sb.WriteString("nilmap")
			return
		}
		id, dup := s.ref(v.Pointer())
		fmt.Fprintf(&s.sb, "%s@%d{", v.Type(), id)
		if dup {
			s.sb.WriteString("...}")
			return
		}
		type kv struct {
			k string
			v reflect.Value
		}
		var items []kv
		iter := v.MapRange()
		for iter.Next() {
			ks := &snapshotter{seen: map[uintptr]int{}}
			ks.walk(iter.Key(), depth+1)
			items = append(items, kv{ks.sb.String(), iter.Value()})
		}
		sort.Slice(items, func(i, j int) bool { return items[i].k < items[j].k })
		for _, it := range items {
			s.sb.WriteString(it.k + ":")
			s.walk(it.v, depth+1)
			s.sb.WriteString(",")
		}
		s.sb.WriteString("}")
	case reflect.Struct:
		fmt.Fprintf(&s.sb, "%s{", v.Type())
		for i := 0; i < v.NumField(); i++ {
			f := v.Field(i)
			if !f.CanInterface() {
				// unexported field: read it through its address when possible
				if f.CanAddr() {
					f = reflect.NewAt(f.Type(), unsafe.Pointer(f.UnsafeAddr())).Elem()
				} else {
					// copy the struct to addressable memory
					c := reflect.New(v.Type()).Elem()
					c.Set(v)
					f = c.Field(i)
					f = reflect.NewAt(f.Type(), unsafe.Pointer(f.UnsafeAddr())).Elem()
				}
			}
			s.sb.WriteString(v.Type().Field(i).Name + "=")
			s.walk(f, depth+1)
			s.sb.WriteString(";")
		}
		s.sb.WriteString("}")
	case reflect.Func:
		if v.IsNil() {
			s.sb.WriteString("nilfunc")
		} else {
			fmt.Fprintf(&s.sb, "func@%x", v.Pointer())
		}
	case reflect.Chan, reflect.UnsafePointer:
		fmt.Fprintf(&s.sb, "%s@%x", v.Kind(), v.Pointer())
	case reflect.String:
		fmt.Fprintf(&s.sb, "%q", v.String())
	case reflect.Bool:
		fmt.Fprintf(&s.sb, "%v", v.Bool())
	case reflect.Int, reflect.Int8, reflect.Int16, reflect.Int32, reflect.Int64:
		fmt.Fprintf(&s.sb, "%s(%d)", v.Type(), v.Int())
	case reflect.Uint, reflect.Uint8, reflect.Uint16, reflect.Uint32, reflect.Uint64, reflect.Uintptr:
		fmt.Fprintf(&s.sb, "%s(%d)", v.Type(), v.Uint())
	case reflect.Float32, reflect.Float64:
		fmt.Fprintf(&s.sb, "%s(%v)", v.Type(), v.Float())
	case reflect.Complex64, reflect.Complex128:
		fmt.Fprintf(&s.sb, "%v", v.Complex())
	default:
		fmt.Fprintf(&s.sb, "?%s", v.Kind())
	}
}
