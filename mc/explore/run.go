package explore

import (
	"bufio"
	"bytes"
	"crypto/sha1"
	"encoding/json"
	"fmt"
	"os"
	"os/exec"
	"path/filepath"
	"runtime"
	"sort"
	"strconv"
	"strings"
	"sync"
	"sync/atomic"
	"time"
)

// VerifDir is the root of the verification tree.
var VerifDir = func() string {
	if d := os.Getenv("VERIF_DIR"); d != "" {
		return d
	}
	return "/verif"
}()

// OutDir is where evidence and replays are written (VERIF_OUT redirects a scratch run).
var OutDir = func() string {
	if d := os.Getenv("VERIF_OUT"); d != "" {
		return d
	}
	return VerifDir
}()

func envInt(name string, def int) int {
	if s := os.Getenv(name); s != "" {
		if n, err := strconv.Atoi(s); err == nil {
			return n
		}
	}
	return def
}

// Seed only rotates the order in which families' indices are visited.
func Seed() int { return envInt("VERIF_SEED", 0) }

// ---------------------------------------------------------------- worker

var (
	curCase  atomic.Value // string
	curStart atomic.Int64
)

// Heartbeat tells the hang detector that a long case (one that runs many executions) is making progress.
func Heartbeat() {
	if curStart.Load() != 0 {
		curStart.Store(time.Now().UnixNano())
	}
}

// RunWorker executes shard k of n of the property and prints the Rec as JSON.
// WorkerDeadline is the wall-clock deadline of the running worker (zero: none). Families whose single cases can run
// for minutes (schedule trees) consult it themselves; RunWorker only looks between cases.
var WorkerDeadline time.Time

func RunWorker(p *Prop, tier string, k, n int, trace bool, deadline time.Time) {
	WorkerDeadline = deadline
	r := NewRec()
	if p.Setup != nil {
		p.Setup(tier)
	}
	// hang detector: a case takes ~1e-5..1e-2 s; 120 s is non-termination.
	go func() {
		for {
			time.Sleep(2 * time.Second)
			st := curStart.Load()
			if st != 0 && time.Now().UnixNano()-st > int64(120*time.Second) {
				fmt.Fprintf(os.Stderr, "\nHANG %v\n", curCase.Load())
				os.Exit(3)
			}
		}
	}()
	fams := p.Families(tier)
	seed := int64(Seed())
	for _, f := range fams {
		r.curFamily = f.Name
		cut := false
		cnt := int64(0)
		stride := f.Stride
		if stride <= 0 {
			stride = 1
		}
		nblocks := (f.Count + stride - 1) / stride
		mine := int64(0) // number of blocks this worker owns
		if nblocks > int64(k) {
			mine = (nblocks - int64(k) + int64(n) - 1) / int64(n)
		}
		for j := int64(0); j < mine; j++ {
			// the seed rotates the visiting order of this worker's blocks only
			b := int64(k) + ((j+seed%mine+mine)%mine)*int64(n)
			for i := b * stride; i < (b+1)*stride && i < f.Count; i++ {
				if !deadline.IsZero() && time.Now().After(deadline) { // (checked before every case: one case may run for minutes)
					cut = true
					break
				}
				cnt++
				r.curIndex = i
				if trace {
					fmt.Fprintf(os.Stderr, "CASE %s %d\n", f.Name, i)
				}
				curCase.Store(f.Name + " " + strconv.FormatInt(i, 10))
				curStart.Store(time.Now().UnixNano())
				runCase(f, i, r)
				curStart.Store(0)
			}
			if cut {
				break
			}
		}
		if cut {
			r.Incomplete = append(r.Incomplete, f.Name)
		}
	}
	if p.Teardown != nil {
		p.Teardown()
	}
	for s := range r.States {
		r.StateList = append(r.StateList, s)
	}
	out := bufio.NewWriter(os.Stdout)
	enc := json.NewEncoder(out)
	if err := enc.Encode(r); err != nil {
		fmt.Fprintln(os.Stderr, "encode:", err)
		os.Exit(2)
	}
	out.Flush()
}

// runCase runs one case; a BaselineFailure becomes a violation, any other panic stays a harness crash.
func runCase(f Family, i int64, r *Rec) {
	defer func() {
		if p := recover(); p != nil {
			if b, ok := p.(BaselineFailure); ok {
				r.Violation("baseline-fails:"+f.Name, map[string]any{"family": f.Name, "index": i}, "the harness's own valid template parses and renders", b.Msg)
				return
			}
			panic(p)
		}
	}()
	f.Run(i, r)
}

// RunOne runs a single case (replay) in-process and returns its record.
func RunOne(p *Prop, tier, family string, index int64) *Rec {
	r := NewRec()
	if p.Setup != nil {
		p.Setup(tier)
	}
	for _, f := range p.Families(tier) {
		if f.Name == family {
			r.curFamily = f.Name
			r.curIndex = index
			if index < 0 || index >= f.Count {
				fmt.Fprintf(os.Stderr, "index %d out of range for family %s (count %d)\n", index, family, f.Count)
				os.Exit(2)
			}
			runCase(f, index, r)
			return r
		}
	}
	fmt.Fprintf(os.Stderr, "no family %q in %s/%s\n", family, p.ID, tier)
	os.Exit(2)
	return nil
}

// ---------------------------------------------------------------- coordinator

type knownFinding struct {
	Property string `json:"property"`
	Key      string `json:"key"`
	Status   string `json:"status"` // known | fixed
	Commit   string `json:"commit,omitempty"`
	What     string `json:"what"`
}

func loadKnown() []knownFinding {
	var out []knownFinding
	b, err := os.ReadFile(filepath.Join(VerifDir, "known_findings.json"))
	if err != nil {
		return nil
	}
	if err := json.Unmarshal(b, &out); err != nil {
		fmt.Fprintln(os.Stderr, "known_findings.json:", err)
		os.Exit(2)
	}
	return out
}

type workerOut struct {
	rec    *Rec
	err    string
	stderr string
}

func runShard(self string, p *Prop, tier string, k, n int, trace bool, deadline time.Time) workerOut {
	args := []string{"--worker", p.ID, "--tier", tier, "--shard", fmt.Sprintf("%d/%d", k, n)}
	if trace {
		args = append(args, "--trace")
	}
	if !deadline.IsZero() {
		args = append(args, "--deadline", strconv.FormatInt(deadline.Unix(), 10))
	}
	cmd := exec.Command(self, args...)
	cmd.Env = append(os.Environ(), "GOMAXPROCS=2", "TZ=UTC", "GOTRACEBACK=single")
	var so bytes.Buffer
	se := &tailBuffer{max: 1 << 16}
	cmd.Stdout = &so
	cmd.Stderr = se
	err := cmd.Run()
	if err != nil {
		return workerOut{err: err.Error(), stderr: se.String()}
	}
	r := NewRec()
	if e := json.Unmarshal(so.Bytes(), r); e != nil {
		return workerOut{err: "bad worker output: " + e.Error(), stderr: se.String()}
	}
	return workerOut{rec: r, stderr: se.String()}
}

// tailBuffer keeps the head and the tail of a stream (crash traces are long).
type tailBuffer struct {
	mu    sync.Mutex
	head  []byte
	tail  []byte
	max   int
	total int
}

func (t *tailBuffer) Write(b []byte) (int, error) {
	t.mu.Lock()
	defer t.mu.Unlock()
	if len(t.head) < t.max {
		room := t.max - len(t.head)
		if room > len(b) {
			room = len(b)
		}
		t.head = append(t.head, b[:room]...)
	}
	t.total += len(b)
	t.tail = append(t.tail, b...)
	if len(t.tail) > t.max {
		t.tail = t.tail[len(t.tail)-t.max:]
	}
	return len(b), nil
}
func (t *tailBuffer) String() string {
	if t.total <= t.max {
		return string(t.head)
	}
	return string(t.head) + "\n...\n" + string(t.tail)
}

// crashedInHarness: in the crash trace, the first function frame below panic() that belongs either to the
// harness (verifmc/) or to the code under test decides whose crash it is.
func crashedInHarness(stderr string) bool {
	i := strings.LastIndex(stderr, "\npanic(")
	if i < 0 {
		i = strings.Index(stderr, "goroutine ")
		if i < 0 {
			return false
		}
	}
	for _, l := range strings.Split(stderr[i:], "\n") {
		if strings.HasPrefix(l, "\t") || strings.HasPrefix(l, "panic(") {
			continue
		}
		if strings.HasPrefix(l, "verifmc/") {
			return true
		}
		if strings.HasPrefix(l, "github.com/osteele/liquid") {
			return false
		}
	}
	return false
}

func lastCaseLine(stderr string) (fam string, idx int64, ok bool) {
	lines := strings.Split(stderr, "\n")
	for i := len(lines) - 1; i >= 0; i-- {
		if strings.HasPrefix(lines[i], "CASE ") {
			f := strings.Fields(lines[i])
			if len(f) == 3 {
				n, err := strconv.ParseInt(f[2], 10, 64)
				if err == nil {
					return f[1], n, true
				}
			}
		}
	}
	return "", 0, false
}

// Coordinate runs the whole check and returns the process exit code.
func Coordinate(self string, p *Prop, tier string) int {
	start := time.Now()
	nw := envInt("VERIF_WORKERS", runtime.NumCPU())
	if nw < 1 {
		nw = 1
	}
	var deadline time.Time
	if tier == "thorough" {
		deadline = start.Add(time.Duration(envInt("VERIF_BUDGET_S", 1500)) * time.Second)
	} else if b := envInt("VERIF_BUDGET_S", 0); b > 0 {
		deadline = start.Add(time.Duration(b) * time.Second)
	}
	outs := make([]workerOut, nw)
	var wg sync.WaitGroup
	for k := 0; k < nw; k++ {
		wg.Add(1)
		go func(k int) {
			defer wg.Done()
			outs[k] = runShard(self, p, tier, k, nw, false, deadline)
		}(k)
	}
	wg.Wait()

	merged := NewRec()
	harnessErr := false
	for k, o := range outs {
		if o.rec == nil {
			// the worker died: find the case by re-running the shard with tracing
			fmt.Fprintf(os.Stderr, "worker %d/%d died: %s; re-running with trace\n", k, nw, o.err)
			o2 := runShard(self, p, tier, k, nw, true, deadline)
			if o2.rec != nil {
				// not reproducible: harness problem, not a verdict
				fmt.Fprintf(os.Stderr, "worker death not reproducible; stderr of first run:\n%s\n", o.stderr)
				harnessErr = true
				o = o2
			} else {
				fam, idx, ok := lastCaseLine(o2.stderr)
				if !ok {
					fmt.Fprintf(os.Stderr, "worker died outside a case:\n%s\n", o2.stderr)
					harnessErr = true
					continue
				}
				kind := "crash"
				if strings.Contains(o2.stderr, "\nHANG ") {
					kind = "hang"
				}
				cls := "fatal"
				switch {
				case strings.Contains(o2.stderr, "stack overflow"), strings.Contains(o2.stderr, "goroutine stack exceeds"):
					cls = "stack-overflow"
				case strings.Contains(o2.stderr, "out of memory"):
					cls = "oom"
				case strings.Contains(o2.stderr, "harness:"), crashedInHarness(o2.stderr):
					cls = "harness"
					harnessErr = true
				}
				head := o2.stderr
				if i := strings.LastIndex(head, "\nCASE "); i >= 0 {
					head = head[i+1:]
				}
				if i := strings.Index(head, "fatal error"); i >= 0 {
					head = head[i:]
				} else if i := strings.Index(head, "panic:"); i >= 0 {
					head = head[i:]
				}
				if len(head) > 1500 {
					head = head[:1500]
				}
				if cls == "harness" {
					fmt.Fprintf(os.Stderr, "harness crash in %s#%d (not a verdict on the code under test):\n%s\n", fam, idx, head)
					merged.Incomplete = append(merged.Incomplete, fmt.Sprintf("shard %d/%d after %s#%d (harness crash)", k, nw, fam, idx))
					continue
				}
				merged.VioCount++
				key := "process-" + kind + ":" + cls + ":" + fam
				merged.VioKeys[key]++
				merged.Violations = append(merged.Violations, Violation{Key: key, Family: fam, Index: idx,
					Case: "worker process died on this case (replay to see it)", Expected: "process survives and the case terminates",
					Observed: kind + ": " + head})
				// the rest of that shard was not explored
				merged.Incomplete = append(merged.Incomplete, fmt.Sprintf("shard %d/%d after %s#%d", k, nw, fam, idx))
				continue
			}
		}
		mergeRec(merged, o.rec)
	}
	for s := range merged.States {
		_ = s
	}
	if p.Post != nil {
		p.Post(tier, merged)
	}
	if p.Digest != nil {
		// two fresh processes must agree on every digest line
		var outs [2][]string
		for k := range outs {
			cmd := exec.Command(self, "--digest", p.ID)
			cmd.Env = append(os.Environ(), "TZ=UTC")
			b, err := cmd.Output()
			if err != nil {
				fmt.Fprintln(os.Stderr, "digest process failed:", err)
				harnessErr = true
			}
			outs[k] = strings.Split(strings.TrimSpace(string(b)), "\n")
			merged.Evaluations += int64(len(outs[k]))
		}
		merged.Extra["cross_process_digest_lines"] = int64(len(outs[0]))
		for i := range outs[0] {
			if i >= len(outs[1]) || outs[0][i] != outs[1][i] {
				other := ""
				if i < len(outs[1]) {
					other = outs[1][i]
				}
				merged.VioCount++
				merged.VioKeys["cross-process-differs"]++
				if merged.VioKeys["cross-process-differs"] <= 2 {
					merged.Violations = append(merged.Violations, Violation{Key: "cross-process-differs", Family: "digest", Index: int64(i),
						Case: outs[0][i], Expected: "identical digests in two fresh processes", Observed: outs[0][i] + " vs " + other})
				}
			}
		}
	}

	// classify violations
	known := loadKnown()
	isKnown := func(key string) *knownFinding {
		for i := range known {
			if known[i].Property == p.ID && known[i].Status == "known" && known[i].Key == key {
				return &known[i]
			}
		}
		return nil
	}
	exit := 0
	printedKnown := map[string]bool{}
	printedVio := map[string]bool{}
	newVio := int64(0)
	sort.SliceStable(merged.Violations, func(i, j int) bool {
		a, b := merged.Violations[i], merged.Violations[j]
		if a.Key != b.Key {
			return a.Key < b.Key
		}
		if a.Family != b.Family {
			return a.Family < b.Family
		}
		return a.Index < b.Index
	})
	for _, v := range merged.Violations {
		if kf := isKnown(v.Key); kf != nil {
			if !printedKnown[v.Key] {
				printedKnown[v.Key] = true
				fmt.Printf("KNOWN-FINDING: property=%s %s [key=%s]\n", p.ID, kf.What, v.Key)
			}
			continue
		}
		newVio++
		if printedVio[v.Key] {
			continue
		}
		printedVio[v.Key] = true
		path := writeReplay(p, tier, v)
		fmt.Printf("VIOLATION property=%s replay=%s\n", p.ID, path)
		fmt.Printf("  key=%s family=%s index=%d\n  case=%s\n  expected=%s\n  observed=%s\n", v.Key, v.Family, v.Index,
			oneLine(v.Case), v.Expected, v.Observed)
		exit = 1
	}
	// violations whose full record was dropped (cap) but whose key is new
	for key, n := range merged.VioKeys {
		if isKnown(key) == nil && !printedVio[key] {
			fmt.Printf("VIOLATION property=%s replay=%s\n  key=%s (%d cases; record capped)\n", p.ID, "-", key, n)
			exit = 1
		}
	}
	if harnessErr {
		fmt.Fprintln(os.Stderr, "harness error (see above)")
		if exit == 0 {
			exit = 2
		}
	}
	writeEvidence(p, tier, merged, time.Since(start).Seconds(), newVio, nw)
	fmt.Printf("%s %s: evaluations=%d classes=%d states=%d transitions=%d traces=%d violations=%d known=%d incomplete=%v wall=%.1fs\n",
		p.ID, tier, merged.Evaluations, len(merged.Classes), len(merged.States), merged.Transitions, merged.Traces,
		newVio, len(printedKnown), len(merged.Incomplete) > 0, time.Since(start).Seconds())
	return exit
}

func oneLine(c any) string {
	b, _ := json.Marshal(c)
	s := string(b)
	if len(s) > 600 {
		s = s[:600] + "…"
	}
	return s
}

func mergeRec(m, r *Rec) {
	m.Evaluations += r.Evaluations
	m.Traces += r.Traces
	m.Transitions += r.Transitions
	for k, v := range r.Classes {
		m.Classes[k] += v
	}
	for _, s := range r.StateList {
		m.States[s] = struct{}{}
	}
	for f, ss := range r.Samples {
		for _, s := range ss {
			if len(m.Samples[f]) < 3 {
				m.Samples[f] = append(m.Samples[f], s)
			}
		}
	}
	m.Violations = append(m.Violations, r.Violations...)
	m.VioCount += r.VioCount
	for k, v := range r.VioKeys {
		m.VioKeys[k] += v
	}
	for _, f := range r.Incomplete {
		found := false
		for _, g := range m.Incomplete {
			if g == f {
				found = true
			}
		}
		if !found {
			m.Incomplete = append(m.Incomplete, f)
		}
	}
	m.Notes = append(m.Notes, r.Notes...)
	for k, v := range r.Extra {
		m.Extra[k] += v
	}
}

func writeReplay(p *Prop, tier string, v Violation) string {
	dir := filepath.Join(OutDir, "replays", p.ID)
	os.MkdirAll(dir, 0o755)
	body := map[string]any{"property": p.ID, "tier": tier, "family": v.Family, "index": v.Index, "key": v.Key,
		"case": v.Case, "expected": v.Expected, "observed": v.Observed,
		"how": fmt.Sprintf("./check %s --replay <this file>", p.ID)}
	b, _ := json.MarshalIndent(body, "", " ")
	h := sha1.Sum([]byte(v.Key + "|" + v.Family + "|" + strconv.FormatInt(v.Index, 10) + "|" + tier))
	path := filepath.Join(dir, fmt.Sprintf("%x.json", h[:6]))
	os.WriteFile(path, b, 0o644)
	return path
}

func writeEvidence(p *Prop, tier string, m *Rec, wall float64, vio int64, workers int) {
	fams := p.Families(tier)
	var total int64
	famInfo := []map[string]any{}
	for _, f := range fams {
		total += f.Count
		famInfo = append(famInfo, map[string]any{"family": f.Name, "cases": f.Count})
	}
	var samples []any
	names := []string{}
	for f := range m.Samples {
		names = append(names, f)
	}
	sort.Strings(names)
	// the evidence file stays small: at most 60 samples (spread over the families in name order), every string inside
	// one cut at 400 bytes - a sample illustrates a case, the replay files carry violations in full
	perFam := 3
	if len(names) > 20 {
		perFam = 1
	}
	step := 1
	if len(names) > 60 {
		step = (len(names) + 59) / 60
	}
	for i, f := range names {
		if i%step != 0 {
			continue
		}
		for j, s := range m.Samples[f] {
			if j >= perFam {
				break
			}
			samples = append(samples, map[string]any{"family": f, "case": shorten(s)})
		}
	}
	// a small view of the outcome classes
	type kv struct {
		K string
		V int64
	}
	var cl []kv
	for k, v := range m.Classes {
		cl = append(cl, kv{k, v})
	}
	sort.Slice(cl, func(i, j int) bool { return cl[i].V > cl[j].V || (cl[i].V == cl[j].V && cl[i].K < cl[j].K) })
	top := map[string]int64{}
	for i, c := range cl {
		if i >= 40 {
			break
		}
		top[c.K] = c.V
	}
	exhaustive := len(m.Incomplete) == 0
	cov := map[string]any{
		"evaluations":         m.Evaluations,
		"distinct_nontrivial": len(m.Classes),
		"rule":                p.Rule,
		"samples":             samples,
		"exhaustive":          exhaustive,
		"cases_enumerated":    total,
		"families":            famInfo,
		"outcome_classes_top": top,
		"workers":             workers,
	}
	if p.Bound != nil {
		cov["bound_completed"] = p.Bound(tier)
	}
	if !exhaustive {
		cov["incomplete_families"] = m.Incomplete
	}
	if p.Level == "model_checking" {
		cov["states"] = len(m.States)
		cov["transitions"] = m.Transitions
		cov["traces_validated_against_impl"] = m.Traces
	}
	for k, v := range m.Extra {
		cov[k] = v
	}
	if len(m.Notes) > 0 {
		seen := map[string]bool{}
		var notes []string
		for _, n := range m.Notes {
			if !seen[n] {
				seen[n] = true
				notes = append(notes, n)
			}
		}
		cov["notes"] = notes
	}
	ev := map[string]any{
		"property_id": p.ID,
		"tier":        tier,
		"seed":        Seed(),
		"level":       p.Level,
		"coverage":    cov,
		"assumptions": p.Assumptions,
		"wall_s":      wall,
		"violations":  vio,
	}
	b, _ := json.MarshalIndent(ev, "", " ")
	os.MkdirAll(filepath.Join(OutDir, "evidence"), 0o755)
	if err := os.WriteFile(filepath.Join(OutDir, "evidence", p.ID+".json"), b, 0o644); err != nil {
		fmt.Fprintln(os.Stderr, "evidence:", err)
	}
}

// Replay re-runs the case of a replay file in-process, printing what it sees.
func Replay(path string) int {
	b, err := os.ReadFile(path)
	if err != nil {
		fmt.Fprintln(os.Stderr, err)
		return 2
	}
	var body struct {
		Property, Tier, Family string
		Index                  int64
		Key                    string
	}
	if err := json.Unmarshal(b, &body); err != nil {
		fmt.Fprintln(os.Stderr, err)
		return 2
	}
	p := Lookup(body.Property)
	if p == nil {
		fmt.Fprintln(os.Stderr, "unknown property", body.Property)
		return 2
	}
	r := RunOne(p, body.Tier, body.Family, body.Index)
	if len(r.Violations) == 0 {
		fmt.Printf("replay %s %s#%d: property holds on this case now\n", body.Property, body.Family, body.Index)
		return 0
	}
	for _, v := range r.Violations {
		fmt.Printf("VIOLATION property=%s replay=%s\n  key=%s\n  case=%s\n  expected=%s\n  observed=%s\n", body.Property, path,
			v.Key, oneLine(v.Case), v.Expected, v.Observed)
	}
	return 1
}

// shorten returns v (as decoded JSON) with every string cut at 400 bytes.
func shorten(v any) any {
	b, err := json.Marshal(v)
	if err != nil {
		return fmt.Sprint(v)
	}
	var x any
	if json.Unmarshal(b, &x) != nil {
		return string(b)
	}
	var walk func(any) any
	walk = func(y any) any {
		switch t := y.(type) {
		case string:
			if len(t) > 400 {
				return strings.ToValidUTF8(t[:400], "") + fmt.Sprintf("... (%d bytes)", len(t))
			}
			return t
		case []any:
			if len(t) > 50 {
				t = append(t[:50:50], fmt.Sprintf("... (%d items)", len(t)))
			}
			for i := range t {
				t[i] = walk(t[i])
			}
			return t
		case map[string]any:
			for k := range t {
				t[k] = walk(t[k])
			}
			return t
		}
		return y
	}
	return walk(x)
}
