// Package univ is the boundary-value universe: named logical values, each with
// a constructor for a fresh Go representation, plus the representation
// variants used by the representation-independence checks.
package univ

import (
	"math"
	"strings"
	"time"

	yaml "gopkg.in/yaml.v2"

	"github.com/osteele/liquid/values"
	"verifmc/ref"
)

// Drop is a value-receiver drop; PDrop a pointer-receiver drop.
type Drop struct{ V any }

func (d Drop) ToLiquid() any { return d.V }

type PDrop struct{ V any }

func (d *PDrop) ToLiquid() any { return d.V }

// CountingDrop counts its ToLiquid calls (evaluation probe).
type CountingDrop struct {
	V any
	N *int
}

func (d CountingDrop) ToLiquid() any { *d.N++; return d.V }

type Plain struct {
	A int
	B string
	C []any
	d int //nolint
}

// Val is one universe member.
type Val struct {
	Name  string
	Build func() any // fresh Go value
	L     ref.V      // logical value (valid when HasL)
	HasL  bool
	Lit   string // Liquid literal spelling, "" when not expressible
	Small bool   // member of the reduced universe U2
	Extra bool   // outside the logical domain (totality checks only)
}

var Long = strings.Repeat("lorem ipsum ", 25)

func mk(name string, small bool, lit string, l ref.V, b func() any) Val {
	return Val{Name: name, Build: b, L: l, HasL: true, Lit: lit, Small: small}
}
func extra(name string, small bool, b func() any) Val {
	return Val{Name: name, Build: b, Extra: true, Small: small}
}

// Named types and a struct with byte-array fields (plain data as applications really declare it).
type (
	NamedBytes  []byte
	NamedString string
	NamedInt    int
	NamedSlice  []int
	NamedAnys   []any // a named type whose underlying type is the generic slice itself
	NamedMap    map[string]any
	WithBytes   struct {
		ID    [4]byte
		Raw   []byte
		Named NamedBytes
	}
)

// Inner/Outer: a field and a method-free struct promoted through an embedded pointer that may be nil.
type Inner struct {
	X   string
	URL string
}
type Outer struct {
	*Inner
	Y int
}

// Misc: a renamed field, an unexported field, func-typed fields, an interface field, a nil pointer field.
type Misc struct {
	Tagged string `liquid:"URL"`
	hidden int
	Fn     func() string
	NilFn  func() string
	Any    any
	PtrNil *Inner
	M      map[string]any
}

// pageA and pageB return values of two DIFFERENT struct types that both print as univ.Page.
func pageA() any {
	type Page struct {
		URL string
		N   int
	}
	return Page{URL: "/a", N: 1}
}

func pageB() any {
	type Page struct {
		Title string
		Extra [2]int
		Tags  []string
		URL   string
		X     string
	}
	return &Page{Title: "B", URL: "/b", X: "bx"}
}

func c(v any) func() any { return func() any { return v } }

func L(vs ...ref.V) ref.List { return ref.List(vs) }

// All is the full universe U followed by the extras.
var All = build()

func build() []Val {
	i := ref.Int
	f := ref.Float
	out := []Val{
		mk("nil", true, "nil", nil, c(nil)),
		mk("true", true, "true", true, c(true)),
		mk("false", true, "false", false, c(false)),
		// ints
		mk("i0", true, "0", i(0), c(0)),
		mk("i1", true, "1", i(1), c(1)),
		mk("im1", true, "-1", i(-1), c(-1)),
		mk("i2", false, "2", i(2), c(2)),
		mk("i3", true, "3", i(3), c(3)),
		mk("i7", false, "7", i(7), c(7)),
		mk("im7", false, "-7", i(-7), c(-7)),
		mk("i12", false, "12", i(12), c(12)),
		mk("i2e31m1", false, "2147483647", i(math.MaxInt32), c(math.MaxInt32)),
		mk("im2e31", false, "-2147483648", i(math.MinInt32), c(math.MinInt32)),
		mk("i2e53", false, "9007199254740992", i(1<<53), c(1<<53)),
		mk("i2e53p1", false, "9007199254740993", i(1<<53+1), c(1<<53+1)),
		mk("imax", true, "9223372036854775807", i(math.MaxInt64), c(math.MaxInt64)),
		mk("imin", false, "-9223372036854775808", i(math.MinInt64), c(math.MinInt64)),
		// other widths
		mk("i8_5", false, "", i(5), c(int8(5))),
		mk("u8_200", false, "", i(200), c(uint8(200))),
		mk("i64_3", false, "", i(3), c(int64(3))),
		mk("u_3", false, "", i(3), c(uint(3))),
		mk("u64max", false, "", ref.Uint(math.MaxUint64), c(uint64(math.MaxUint64))),
		mk("i32_m2", false, "", i(-2), c(int32(-2))),
		// floats
		mk("f0", false, "0.0", f(0), c(0.0)),
		mk("f1", false, "1.0", f(1), c(1.0)),
		mk("fm1", false, "-1.0", f(-1), c(-1.0)),
		mk("f1_5", true, "1.5", f(1.5), c(1.5)),
		mk("fm1_5", false, "-1.5", f(-1.5), c(-1.5)),
		mk("f0_25", false, "0.25", f(0.25), c(0.25)),
		mk("f2_5", false, "2.5", f(2.5), c(2.5)),
		mk("f1e15", false, "", f(1e15), c(1e15)),
		mk("f1e300", false, "", f(1e300), c(1e300)),
		mk("f32_0_1", false, "", f(float64(float32(0.1))), c(float32(0.1))),
		// strings
		mk("s_empty", true, `""`, "", c("")),
		mk("s_a", true, `"a"`, "a", c("a")),
		mk("s_b", false, `"b"`, "b", c("b")),
		mk("s_B", false, `"B"`, "B", c("B")),
		mk("s_ab", false, `"ab"`, "ab", c("ab")),
		mk("s_1", true, `"1"`, "1", c("1")),
		mk("s_1_5", false, `"1.5"`, "1.5", c("1.5")),
		mk("s_sp", false, `" "`, " ", c(" ")),
		mk("s_a_b", false, `"a b"`, "a b", c("a b")),
		mk("s_e", false, `"é"`, "é", c("é")),
		mk("s_emoji", true, `"😀a"`, "😀a", c("😀a")),
		mk("s_xff", false, "", "\xff", c("\xff")),
		mk("s_html", false, `"<&>"`, "<&>", c("<&>")),
		mk("s_long", false, "", Long, c(Long)),
		mk("s_date", false, `"2006-01-02"`, "2006-01-02", c("2006-01-02")),
		mk("s_words", false, `"x y z w"`, "x y z w", c("x y z w")),
		mk("s_pct", false, `"%"`, "%", c("%")),
		// lists
		mk("l_empty", true, "", L(), func() any { return []any{} }),
		mk("l_1", false, "", L(i(1)), func() any { return []any{1} }),
		mk("l_123", true, "", L(i(1), i(2), i(3)), func() any { return []any{1, 2, 3} }),
		mk("l_312", false, "", L(i(3), i(1), i(2)), func() any { return []any{3, 1, 2} }),
		mk("l_nil", true, "", L(i(1), nil, i(2), i(1)), func() any { return []any{1, nil, 2, 1} }),
		mk("l_str", false, "", L("a", "B", "b"), func() any { return []any{"a", "B", "b"} }),
		mk("l_nest", false, "", L(L(i(1)), L(i(2))), func() any { return []any{[]any{1}, []any{2}} }),
		mk("l_mixed", true, "", L(i(1), "a"), func() any { return []any{1, "a"} }),
		mk("l_maps", true, "", L(ref.NewMap("k", i(1)), ref.NewMap("k", nil), ref.NewMap()),
			func() any { return []any{map[string]any{"k": 1}, map[string]any{"k": nil}, map[string]any{}} }),
		mk("l_ints", false, "", L(i(3), i(1)), func() any { return []int{3, 1} }),
		mk("l_strs", false, "", L("b", "a"), func() any { return []string{"b", "a"} }),
		mk("l_arr2", false, "", L(i(1), i(2)), func() any { return [2]int{1, 2} }),
		mk("l_onlynil", false, "", L(nil), func() any { return []any{nil} }),
		mk("l_all", false, "", L(true, f(1.5), "x", nil, L(i(1)), ref.NewMap("a", i(1))),
			func() any { return []any{true, 1.5, "x", nil, []any{1}, map[string]any{"a": 1}} }),
		// maps
		mk("m_empty", true, "", ref.NewMap(), func() any { return map[string]any{} }),
		mk("m_a", true, "", ref.NewMap("a", i(1)), func() any { return map[string]any{"a": 1} }),
		mk("m_ab", false, "", ref.NewMap("a", i(1), "b", i(2)), func() any { return map[string]any{"a": 1, "b": 2} }),
		mk("m_size", false, "", ref.NewMap("size", i(9)), func() any { return map[string]any{"size": 9} }),
		mk("m_first", false, "", ref.NewMap("first", i(1)), func() any { return map[string]any{"first": 1} }),
		mk("m_typed", false, "", ref.NewMap("a", i(1)), func() any { return map[string]int{"a": 1} }),
		mk("m_ss", false, "", ref.NewMap("a", "x"), func() any { return map[string]string{"a": "x"} }),
		// extras: no logical equivalent; totality only
		extra("x_mapint", true, func() any { return map[int]any{1: "x"} }),
		extra("x_mapany", false, func() any { return map[any]any{"a": 1, 2: "b"} }),
		extra("x_mslice", true, func() any { return yaml.MapSlice{{Key: "a", Value: 1}, {Key: "b", Value: 2}} }),
		extra("x_mslice2", false, func() any { return yaml.MapSlice{{Key: 1, Value: nil}, {Key: nil, Value: "v"}} }),
		extra("x_bytes", false, func() any { return []byte("ab") }),
		extra("x_time", false, func() any { return time.Date(2020, 2, 3, 4, 5, 6, 0, time.UTC) }),
		extra("x_struct", false, func() any { return Plain{A: 1, B: "x", C: []any{1}} }),
		extra("x_pstruct", false, func() any { return &Plain{A: 2, B: "y"} }),
		extra("x_nilpstruct", false, func() any { return (*Plain)(nil) }),
		extra("x_pint", false, func() any { n := 5; return &n }),
		extra("x_pstr", false, func() any { s := "ps"; return &s }),
		extra("x_nilpint", false, func() any { return (*int)(nil) }),
		extra("x_pslice", false, func() any { s := []any{1, 2}; return &s }),
		extra("x_pmap", false, func() any { m := map[string]any{"a": 1}; return &m }),
		extra("x_drop_i", false, func() any { return Drop{1} }),
		extra("x_drop_s", false, func() any { return Drop{"a"} }),
		extra("x_drop_l", true, func() any { return Drop{[]any{1, 2}} }),
		extra("x_drop_m", false, func() any { return Drop{map[string]any{"a": 1}} }),
		extra("x_drop_nil", false, func() any { return Drop{nil} }),
		extra("x_pdrop", false, func() any { return &PDrop{[]any{1}} }),
		extra("x_l_drops", false, func() any { return []any{Drop{1}, Drop{"x"}, &PDrop{nil}} }),
		extra("x_range", false, func() any { return values.NewRange(1, 3) }),
		extra("x_range_rev", false, func() any { return values.NewRange(5, 1) }),
		extra("x_l_maps_mixed", false, func() any {
			return []any{map[string]any{"k": "b"}, map[string]any{"k": 1}, 3, nil, map[int]any{1: 1}, "s"}
		}),
		extra("x_l_drops_unc", false, func() any {
			return []any{Drop{[]any{1}}, Drop{[]any{1}}, Drop{map[string]any{}}, &PDrop{[]any{1}}}
		}),
		extra("x_structs", false, func() any { return []Plain{{A: 2, B: "b"}, {A: 1, B: "a", C: []any{1}}} }),
		extra("x_l_nested_nil", false, func() any { return []any{nil, []any{nil}, map[string]any{"k": nil}, nil} }),
		extra("x_l_uncomparable", false, func() any {
			return []any{[]any{1}, map[string]any{"a": 1}, []any{1}, map[string]any{"a": 1}}
		}),
		// fixed-size arrays and named types: plain data too (a [16]byte id, a json.RawMessage-like type, ...)
		extra("x_bytearr2", false, func() any { return [2]byte{'a', 'b'} }),
		extra("x_bytearr0", false, func() any { return [0]byte{} }),
		extra("x_bytearr16", false, func() any { return [16]uint8{1, 2, 3} }),
		extra("x_pbytearr", false, func() any { return &[4]byte{'w', 'x', 'y', 'z'} }),
		extra("x_l_bytearrs", false, func() any { return [][2]byte{{'a', 'b'}, {'c', 'd'}} }),
		extra("x_struct_bytes", false, func() any { return WithBytes{ID: [4]byte{1, 2, 3, 4}, Raw: []byte("raw"), Named: NamedBytes("nb")} }),
		extra("x_map_bytearr", false, func() any { return map[string]any{"id": [2]byte{'i', 'd'}, "raw": NamedBytes("r")} }),
		extra("x_namedbytes", false, func() any { return NamedBytes("nb") }),
		extra("x_namedstr", false, func() any { return NamedString("ns") }),
		extra("x_namedint", false, func() any { return NamedInt(4) }),
		extra("x_namedslice", false, func() any { return NamedSlice{2, 1} }),
		extra("x_namedmap", false, func() any { return NamedMap{"a": 1} }),
		extra("x_l_floats", false, func() any { return []float64{1.5, 0.5} }),
		extra("x_l_bools", false, func() any { return []bool{true, false} }),
		extra("x_l_l_ints", false, func() any { return [][]int{{2, 1}, {}} }),
		extra("x_arr_str3", false, func() any { return [3]string{"c", "a", "b"} }),
		extra("x_arr_any0", false, func() any { return [0]any{} }),
		extra("x_m_l_ints", false, func() any { return map[string][]int{"l": {1, 2}} }),
		extra("x_ppint", false, func() any { n := 6; p := &n; return &p }),
		extra("x_i8_m1", false, func() any { return int8(-1) }),
		extra("x_i16_m300", false, func() any { return int16(-300) }),
		extra("x_l_i8", false, func() any { return []int8{-1, 0, 1} }),
		// structs: two distinct types that print the same name, embedded (nil) pointers, tags, unexported and func fields
		// maps whose key type is a named string type; an ordered map with a sequence as a key
		extra("x_map_namedkey", false, func() any { return map[NamedString]any{"a": 2, "k": 1, "size": 7} }),
		extra("x_l_maps_namedkey", false, func() any {
			return []any{map[NamedString]any{"a": 2, "k": 1}, map[NamedString]any{"a": 1}, map[NamedString]int{"a": 0}}
		}),
		extra("x_mslice_seqkey", false, func() any {
			return yaml.MapSlice{{Key: []any{1}, Value: "seq"}, {Key: map[string]any{"a": 1}, Value: "map"}, {Key: "a", Value: 1}}
		}),
		// times with unusual zones and years; date-like strings with zone abbreviations that are, and are not, names of the zone database
		extra("x_time_pst0", false, func() any { return time.Date(2017, 2, 8, 19, 0, 0, 0, time.FixedZone("PST", 0)) }),
		extra("x_time_noname", false, func() any { return time.Date(2017, 2, 8, 19, 0, 0, 5, time.FixedZone("", -7*3600)) }),
		extra("x_time_far", false, func() any { return time.Unix(1<<40, 999999999).UTC() }),
		extra("x_time_zero", false, func() any { return time.Time{} }),
		extra("x_ptime", false, func() any { t := time.Date(2001, 2, 3, 4, 5, 6, 7, time.UTC); return &t }),
		extra("s_date_pst", false, func() any { return "2017-02-08 19:00:00 PST" }),
		extra("s_date_xyz", false, func() any { return "Wed, 08 Feb 2017 19:00:00 XYZ" }),
		extra("s_date_mst", false, func() any { return "Mon Jan 2 15:04:05 MST 2006" }),
		extra("s_date_badoff", false, func() any { return "2017-02-08T19:00:00+99:99" }),
		extra("s_date_zeros", false, func() any { return "0000-00-00 00:00:00" }),
		extra("x_page_a", false, pageA),
		extra("x_page_b", false, pageB),
		extra("x_embed_nil", false, func() any { return Outer{Y: 1} }),
		extra("x_embed_set", false, func() any { return &Outer{Inner: &Inner{X: "in", URL: "u"}, Y: 2} }),
		extra("x_struct_misc", false, func() any {
			return Misc{Tagged: "t", hidden: 3, Fn: func() string { return "fn" }, NilFn: nil, Any: []any{1}, PtrNil: nil, M: map[string]any{"URL": "m"}}
		}),
	}
	return out
}

// Logical returns the members with a logical value.
func Logical() []Val {
	var out []Val
	for _, v := range All {
		if v.HasL {
			out = append(out, v)
		}
	}
	return out
}

// Small returns the reduced universe U2 (with extras marked Small).
func Small() []Val {
	var out []Val
	for _, v := range All {
		if v.Small {
			out = append(out, v)
		}
	}
	return out
}

// IntBoundary is the extra integer-argument set for numeric filter parameters.
var IntBoundary = []int{math.MinInt32, -1001, -3, -2, -1, 0, 1, 2, 3, 4, 5, 6, 7, 8, 9, 10, 11, 12, 50, 1000, 1001, 2000, math.MaxInt32 + 1, 1 << 62}
