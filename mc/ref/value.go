// Package ref is the reference model: a deliberately naive description of what
// the properties say, over a normalised value domain. It imports nothing from
// the code under test.
package ref

import (
	"fmt"
	"math"
	"math/big"
	"sort"
	"strconv"
	"strings"
)

// V is a logical Liquid value: nil | bool | Num | string | List | *Map.
type V any

// Num is an exact number; Float tells whether it was given as a float.
type Num struct {
	R     *big.Rat
	Float bool
}

type List []V

// Map is a string-keyed map; Keys keeps a canonical (sorted) order.
type Map struct {
	Keys []string
	Vals map[string]V
}

func Int(n int64) Num { return Num{new(big.Rat).SetInt64(n), false} }
func BigInt(s string) Num {
	r, ok := new(big.Rat).SetString(s)
	if !ok {
		panic("harness: bad int " + s)
	}
	return Num{r, false}
}
func Float(f float64) Num {
	r := new(big.Rat)
	if r.SetFloat64(f) == nil {
		panic("harness: non-finite float")
	}
	return Num{r, true}
}
func Uint(n uint64) Num { return Num{new(big.Rat).SetInt(new(big.Int).SetUint64(n)), false} }

func NewMap(kv ...any) *Map {
	m := &Map{Vals: map[string]V{}}
	for i := 0; i+1 < len(kv); i += 2 {
		k := kv[i].(string)
		if _, ok := m.Vals[k]; !ok {
			m.Keys = append(m.Keys, k)
		}
		m.Vals[k] = kv[i+1]
	}
	sort.Strings(m.Keys)
	return m
}

// Kind names the Liquid kind of a value.
func Kind(v V) string {
	switch v.(type) {
	case nil:
		return "nil"
	case bool:
		return "bool"
	case Num:
		return "number"
	case string:
		return "string"
	case List:
		return "array"
	case *Map:
		return "map"
	}
	panic(fmt.Sprintf("harness: not a logical value: %T", v))
}

// Truthy: exactly nil and false are falsy.
func Truthy(v V) bool { return v != nil && v != false }

// Tri is a three-valued verdict: the property text may leave a case open.
type Tri int

const (
	False Tri = iota
	True
	Unspecified
)

func (t Tri) String() string { return [...]string{"false", "true", "unspecified"}[t] }
func B(b bool) Tri {
	if b {
		return True
	}
	return False
}

// Equal implements ==: numbers by value, strings bytewise, nil only nil,
// arrays element-wise, unlike kinds never equal. Map==map is left open
// (the statement lists no rule for it) except that equality is reflexive.
func Equal(a, b V) Tri {
	ka, kb := Kind(a), Kind(b)
	if ka != kb {
		return False
	}
	switch x := a.(type) {
	case nil:
		return True
	case bool:
		return B(x == b.(bool))
	case Num:
		return B(x.R.Cmp(b.(Num).R) == 0)
	case string:
		return B(x == b.(string))
	case List:
		y := b.(List)
		if len(x) != len(y) {
			return False
		}
		res := True
		for i := range x {
			switch Equal(x[i], y[i]) {
			case False:
				return False
			case Unspecified:
				res = Unspecified
			}
		}
		return res
	case *Map:
		return Unspecified
	}
	panic("unreachable")
}

// Less implements <: numbers by value, strings lexically (bytewise); an
// ordering between unlike kinds or with nil is false; ordering of booleans,
// arrays and maps is not defined by the statement.
func Less(a, b V) Tri {
	ka, kb := Kind(a), Kind(b)
	if ka == "nil" || kb == "nil" {
		return False
	}
	if ka != kb {
		return False
	}
	switch x := a.(type) {
	case Num:
		return B(x.R.Cmp(b.(Num).R) < 0)
	case string:
		return B(x < b.(string))
	}
	return Unspecified
}

// PrintNum renders a number the way the property C17 fixes it: whole numbers of
// magnitude < 1e15 print as digits only; other floats by shortest round-trip.
func PrintNum(n Num) string {
	if n.R.IsInt() {
		if !n.Float {
			return n.R.Num().String()
		}
		f, _ := n.R.Float64()
		if math.Abs(f) < 1e15 {
			return n.R.Num().String()
		}
		return strconv.FormatFloat(f, 'g', -1, 64)
	}
	f, _ := n.R.Float64()
	return strconv.FormatFloat(f, 'g', -1, 64)
}

// Print renders a value as an object would print it. ok=false when the text
// does not define the rendering (maps, floats in exponent form are defined
// only up to "parses back").
func Print(v V) (s string, ok bool) {
	switch x := v.(type) {
	case nil:
		return "", true
	case bool:
		if x {
			return "true", true
		}
		return "false", true
	case Num:
		return PrintNum(x), true
	case string:
		return x, true
	case List:
		var sb strings.Builder
		for _, e := range x {
			t, ok := Print(e)
			if !ok {
				return "", false
			}
			sb.WriteString(t)
		}
		return sb.String(), true
	case *Map:
		return "", false
	}
	panic("unreachable")
}

// Show is a debugging representation.
func Show(v V) string {
	switch x := v.(type) {
	case nil:
		return "nil"
	case bool:
		return fmt.Sprint(x)
	case Num:
		if x.Float {
			return x.R.RatString() + "f"
		}
		return x.R.RatString()
	case string:
		return strconv.Quote(x)
	case List:
		var parts []string
		for _, e := range x {
			parts = append(parts, Show(e))
		}
		return "[" + strings.Join(parts, ",") + "]"
	case *Map:
		var parts []string
		for _, k := range x.Keys {
			parts = append(parts, strconv.Quote(k)+":"+Show(x.Vals[k]))
		}
		return "{" + strings.Join(parts, ",") + "}"
	}
	return fmt.Sprintf("?%T", v)
}
