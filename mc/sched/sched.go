// Package sched is a cooperative scheduler for exploring interleavings of
// goroutines at harness-owned scheduling points: exactly one goroutine runs at
// a time, control changes hands only inside Point(), and a run is fully
// determined by its choice sequence.
package sched

import (
	"fmt"
	"time"
)

// PointInfo describes one scheduling decision of a run.
type PointInfo struct {
	Enabled             []int // canonical order: the running goroutine first if still enabled, then ascending ids
	RunningStillEnabled bool
	Label               string
}

// Run is the record of one execution.
type Run struct {
	Points   []PointInfo
	Choices  []int
	Panics   []string // panic values of goroutine bodies (a body panicking is reported, not raised)
	Deadlock bool     // unfinished goroutines remained but none was enabled
}

// PreemptionsBefore counts the preemptions taken by choices[0:i].
func (r *Run) PreemptionsBefore(i int) int {
	n := 0
	for j := 0; j < i && j < len(r.Choices); j++ {
		if r.Points[j].RunningStillEnabled && r.Choices[j] != 0 {
			n++
		}
	}
	return n
}

type event struct {
	g     int
	done  bool
	label string
	wait  func() bool // non-nil: the goroutine is blocked until wait() is true
}

// Current is the scheduler of the execution in progress (nil outside Execute). Cooperative shims of
// synchronisation primitives (package syncshim) route their scheduling points through it.
var Current *S

// S is one scheduler instance (one execution).
type S struct {
	resume []chan struct{}
	events chan event
	cur    int
	active bool
}

// Active tells whether an execution is in progress on this scheduler.
func (s *S) Active() bool { return s != nil && s.active }

// Wait parks the running goroutine until ready() holds; it is re-evaluated at every scheduling decision.
// A goroutine whose condition is false is not enabled; if nobody is enabled the run is a deadlock.
func (s *S) Wait(label string, ready func() bool) {
	if s == nil || !s.active {
		if !ready() {
			panic("sched: blocking wait outside a controlled execution")
		}
		return
	}
	g := s.cur
	s.events <- event{g: g, label: label, wait: ready}
	<-s.resume[g]
}

// Point is a scheduling point; it is called by whichever goroutine is running.
func (s *S) Point(label string) {
	if s == nil || !s.active {
		return
	}
	g := s.cur
	s.events <- event{g: g, label: label}
	<-s.resume[g]
}

// Execute runs the bodies under the given choice prefix (choice 0 at every later point).
// An out-of-range choice is a hard error.
func Execute(bodies []func(s *S), prefix []int) *Run {
	n := len(bodies)
	s := &S{resume: make([]chan struct{}, n), events: make(chan event), active: true}
	run := &Run{}
	finished := make([]bool, n)
	for g := range bodies {
		s.resume[g] = make(chan struct{})
		g := g
		go func() {
			<-s.resume[g]
			defer func() {
				if p := recover(); p != nil {
					run.Panics = append(run.Panics, fmt.Sprintf("goroutine %d: %v", g, p))
				}
				s.events <- event{g: g, done: true}
			}()
			bodies[g](s)
		}()
	}
	cur := -1 // nobody has run yet
	label := "start"
	waiting := make([]func() bool, n)
	Current = s
	defer func() { Current = nil }()
	for {
		ready := func(g int) bool { return !finished[g] && (waiting[g] == nil || waiting[g]()) }
		var enabled []int
		if cur >= 0 && ready(cur) {
			enabled = append(enabled, cur)
		}
		for g := 0; g < n; g++ {
			if g != cur && ready(g) {
				enabled = append(enabled, g)
			}
		}
		if len(enabled) == 0 {
			for g := 0; g < n; g++ {
				if !finished[g] {
					run.Deadlock = true // parked goroutines are abandoned
				}
			}
			break
		}
		still := cur >= 0 && ready(cur)
		choice := 0
		i := len(run.Points)
		if i < len(prefix) {
			choice = prefix[i]
			if choice < 0 || choice >= len(enabled) {
				panic(fmt.Sprintf("harness: schedule prefix %v: choice %d out of range at point %d (enabled %v)", prefix, choice, i, enabled))
			}
		}
		run.Points = append(run.Points, PointInfo{Enabled: enabled, RunningStillEnabled: still, Label: label})
		run.Choices = append(run.Choices, choice)
		cur = enabled[choice]
		s.cur = cur
		waiting[cur] = nil
		s.resume[cur] <- struct{}{}
		ev := <-s.events
		if ev.done {
			finished[ev.g] = true
			label = fmt.Sprintf("g%d done", ev.g)
		} else {
			waiting[ev.g] = ev.wait
			label = fmt.Sprintf("g%d@%s", ev.g, ev.label)
		}
	}
	s.active = false
	return run
}

// Explore enumerates every schedule with at most bound preemptions (depth-first, as in the
// iterative context-bounding idiom): visit is called once per complete execution.
// It returns the number of executions; maxExec caps it (0 = no cap) and reports truncation.
func Explore(mk func() []func(s *S), bound int, maxExec int, visit func(r *Run)) (execs int, truncated bool) {
	return ExploreShard(mk, bound, maxExec, 0, 1, visit)
}

// ExploreShard splits one scenario over nshards workers without exploring anything twice:
// executions with fewer than two deviations from the default schedule are run by every shard
// (they are needed to enumerate their children) but visited by shard 0 only; every subtree
// rooted at an execution with exactly two deviations is owned by one shard, round-robin.
// Deadline, when set, ends ExploreShard early (truncated = true): one schedule tree may be far larger than the
// wall-clock budget of a whole check.
var Deadline time.Time

func ExploreShard(mk func() []func(s *S), bound int, maxExec int, shard, nshards int, visit func(r *Run)) (execs int, truncated bool) {
	unit := 0
	var rec func(prefix []int, depth int, owned bool)
	rec = func(prefix []int, depth int, owned bool) {
		if maxExec > 0 && execs >= maxExec {
			truncated = true
			return
		}
		if truncated {
			return
		}
		if !Deadline.IsZero() && time.Now().After(Deadline) {
			truncated = true // the caller reports the exploration as capped, never as exhaustive
			return
		}
		r := Execute(mk(), prefix)
		if owned {
			execs++
			visit(r)
		}
		for i := len(prefix); i < len(r.Points); i++ {
			p := r.Points[i]
			cost := r.PreemptionsBefore(i)
			if p.RunningStillEnabled {
				cost++
			}
			if cost > bound {
				continue
			}
			for alt := 1; alt < len(p.Enabled); alt++ {
				next := append(append([]int{}, r.Choices[:i]...), alt)
				switch {
				case depth+1 < 2:
					rec(next, depth+1, shard == 0)
				case depth+1 == 2:
					mine := unit%nshards == shard
					unit++
					if mine {
						rec(next, depth+1, true)
					}
				default:
					rec(next, depth+1, true)
				}
			}
		}
	}
	rec(nil, 0, shard == 0)
	return
}
