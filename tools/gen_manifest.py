#!/usr/bin/env python3
"""Regenerates /verif/MANIFEST.json from the table below (single source of truth)."""
import json, os, subprocess

ROOT = os.path.dirname(os.path.dirname(os.path.abspath(__file__)))
ids = [json.loads(l)["id"] for l in open(os.path.join(ROOT, "properties.jsonl"))]

EXH = "bounded exhaustive enumeration on the real code"
CHECKS = {
    "C01": dict(
        cat="exploration", ref="4/C01",
        text="Every case of a finite, explicitly bounded input space (filter x receiver x argument tuples from a boundary-value universe, operator/tag forms x value pairs, all strings of <=N lexical fragments, all expression-token sequences of <=N tokens in every argument position, the one-edit neighbourhood of the repository's own test templates) is parsed and rendered by the real engine in isolated worker processes; any panic, process death, hang, empty or unusable error is a violation. Totality is a universally quantified claim over inputs, so exhaustive enumeration inside a stated bound is the strongest decision this family offers; outside the alphabets nothing is claimed.",
        note="Trusts: Go runtime recover semantics; the 120 s per-case hang detector (cases take microseconds); universe and alphabets of DESIGN.md 3.1/3.2. Ranges that are iterated are restricted to +-1000.",
        tech="bounded exhaustive input enumeration (boundary-value matrix + all strings/token sequences up to length N) executed on the implementation in sharded worker processes"),
    "C09": dict(
        cat="model_checking", ref="4/C09",
        text="A one-step reference model of the documented value rules (exact rational numbers, bytewise strings, nil/unlike-kind rules, element-wise arrays) is compared with the real engine on every ordered pair of a ~130-value universe (every kind, every numeric width, boundary magnitudes) under all 7 operators, as variables and as literals; independently the coherence laws (!= is not ==, > is swapped <, <= is < or ==, reflexivity, symmetry) are checked on the implementation's own answers, and every and/or expression with <=3 operators (chains and fully parenthesised trees) over 8 truthiness values is evaluated. Every model transition is validated against the implementation.",
        note="Reference model mc/ref (imports nothing from /repo). Left unspecified by the statement and therefore only checked for coherence and never-fails: map==map, ordering of booleans/arrays/maps, contains on scalars, non-string needle in a string.",
        tech="exhaustive pair-universe x operator enumeration against a reference model, plus algebraic laws on the implementation's own outputs"),
    "C15": dict(
        cat="model_checking", ref="4/C15",
        text="Reference list functions (reverse, uniq, compact, concat, map, first, last, size, join) and order/permutation predicates (sort, sort by key, sort_natural) are compared with the real filters on every array of length <=3 (quick) / <=5 (thorough) over five element alphabets (ints, floats, strings, ints+nil, maps with present/absent/nil key), in every Go representation that can hold it, through each filter and all chains of two, plus a scaled family (25 lengths from 6 to 1000 around powers of two x 5 deterministic patterns, including integers beyond 2^53); additionally the input array must render unchanged after the filter ran (non-mutation) and every representation must give the []any result.",
        note="Reference in mc/props/c15.go + mc/ref. Unspecified: sort order between unlike kinds/nil/maps, stability, ordered YAML maps as array input.",
        tech="exhaustive small-array enumeration x representations x filter pipelines against reference list functions and permutation/order predicates"),
    "C16": dict(
        cat="model_checking", ref="4/C16",
        text="Rune-based reference string functions and the laws named in the statement (concatenation, case mapping, strip family, replace/remove all vs first, split/join inverse, size/slice/truncate/truncatewords in characters and never lengthening, escape leaves no raw specials, escape_once idempotent, url round trip, non-string receivers act as their printed text, UTF-8 validity) are checked against the real filters on every string of length <=3 (quick) / <=4 (thorough) over a 12-symbol alphabet containing multi-byte characters and HTML/URL specials, with all integer parameters in -3..12 and all string parameters up to length 1/2; a scaled family repeats every string of <=2 symbols 8..65536 times with slice/truncate at the boundaries of the length.",
        note="Unspecified (no-error + UTF-8 still checked): truncate with n < ellipsis length, truncatewords n < 1, slice out-of-range start / negative length (substring of <= n chars required), empty search pattern, size of a non-string scalar.",
        tech="exhaustive string enumeration over a small alphabet x parameter grid against rune-based reference functions and algebraic laws"),
    "C17": dict(
        cat="model_checking", ref="4/C17",
        text="Exact rational arithmetic (math/big) is the reference for plus, minus, times, divided_by, modulo, abs, ceil, floor, round over all pairs of a ~110-operand numeric universe (ints -12..12 and boundary magnitudes up to 2^53 as int and float, other widths, quarters, numeric and non-numeric strings, nil), as variables and literals, plus all chains of two and three binary steps over a 7-value universe; results must parse back to the exact value whenever operands and result are float64-representable, whole results print as digits, ceil/floor print integers, division/modulo by zero and non-numeric strings must be errors. Scaled: 2^k and 2^k+-1 (k=20..52), 10^6..10^15 and chains of up to 129 steps.",
        note="Accepted alternatives: floor or truncation for negative integer quotients, either sign convention for modulo. Unspecified: nil operands, numeric strings as arguments.",
        tech="exhaustive operand-pair and operation-chain enumeration against exact rational arithmetic"),
    "C10": dict(
        cat="model_checking", ref="4/C10",
        text="Reference branch selection (first truthy condition; exactly nil and false falsy) is compared with the real tags on every if/elsif/else chain of 1..4 (quick) / 1..6 (thorough) branches over every vector of a 9-value truthiness universe, with and without else; each condition carries a logging probe so the set and order of evaluated conditions is compared too, and poison variants place a failing filter in every condition after the selected branch. unless, case/when (selection by the implementation's own ==, validated by C09), the if/unless duality over every (pair, operator) of the C09 universe, two-level nestings, conditionals inside loops and chains of 7..60 branches are enumerated the same way.",
        note="Probes are a registered identity filter and logging Drops; unspecified: evaluation of later values inside the selected when clause.",
        tech="exhaustive program enumeration over a truthiness universe against a reference branch selector, with evaluation-order probes"),
    "C11": dict(
        cat="model_checking", ref="4/C11",
        text="A reference selection function (reverse, skip offset, take limit), the forloop formulas and a small reference interpreter for nested loops are compared with the real for/tablerow/cycle/break/continue on the complete grid length 0..5|7 x offset x limit x reversed x 10 body variants x 5 collection representations x 3 modifier spellings, tablerow x cols, all range endpoint pairs in -3..6, maps of 0..4 entries (multiset of pairs), 14 nothing-selected cases (else must render) every nested loop program of depth <=2|3 with break/continue at each index and four cycle variants per level, and collections of 8..4097 items with offset/limit at the boundaries.",
        note="Unspecified: negative offset/limit, cols: 0, class names of tablerow; cycle counters are per loop execution.",
        tech="exhaustive grid and nested-program enumeration against a reference loop interpreter"),
    "C12": dict(
        cat="model_checking", ref="4/C12",
        text="A reference interpreter with one flat variable store (assign/capture write it, loops save and restore the loop variable and forloop on every exit including break, include reads the current store) is compared with the real engine on every program of <=4 (quick) / <=5 (thorough) statements over 11 statement kinds (assign, assign-from-variable, include, capture, shadowing for, for with break, for named forloop, tablerow, if true/false), with a probe reading every variable after every statement and at the start of every body, from bound and unbound initial bindings; the capture-equivalence law is checked on every program and on pairs of fragments from the other generators.",
        note="Included file is served from the engine cache; it assigns only a variable the includer never reads. tablerow decoration stripped before comparison.",
        tech="exhaustive program enumeration (unranked by size) against a reference interpreter, plus a differential law"),
    "C13": dict(
        cat="model_checking", ref="4/C13",
        text="For skeletons of 1-2 (quick) / 1-3 (thorough) tag items (object, assign, if, if/else, for, comment, raw, capture) surrounded by text pieces from a whitespace alphabet, every one of the 2^k subsets of hyphen positions (k <= 12) is rendered, plus whitespace runs of 63..65537 characters next to every marker. A token-level reference trimmer decides the output whenever every hyphen faces non-empty literal text on the taken path; in all cases the whitespace-erased outputs with and without hyphens must coincide, and a template without hyphens must lose nothing.",
        note="raw/comment bodies and untaken branches are not literal text for the exact oracle; hyphens adjacent to another tag fall under the whitespace-erasure law only.",
        tech="exhaustive marker-subset enumeration over template skeletons against a token-level reference trimmer"),
    "C08": dict(
        cat="model_checking", ref="4/C08",
        text="Reference lookup rules (array index with negatives, first/last/size, map entry with size fallback, nil for every step that does not apply, strict-variables error for a nil final value) are compared with the real evaluator on the complete grid array length 0..5 x 4 representations x index -7..7 spelled four ways x non-integer indices, on map and scalar access grids, and on every lookup tree of depth <=2 (quick) / <=3 (thorough) over 16 atoms. Filter pipelines are decided by the law the statement gives: every chain of 2|3 steps over ~100 filter steps and 14 receivers must render as its assign-by-assign decomposition; unknown filters and one argument too many must be errors for every standard filter; whitespace (including newlines) from a 4-symbol set is inserted in every gap of 7 tag/object forms (all 4^k combinations), and dot/bracket/quote spellings must agree.",
        note="Unspecified (not compared): float indices, string properties/indexing, array[\"first\"], map[\"size\"] without key, range indexing. Filter arities from the table in mc/props/c08.go.",
        tech="exhaustive lookup-grid and expression-tree enumeration against reference lookup rules, plus pipeline-decomposition and spelling-invariance laws"),
    "C05": dict(
        cat="exploration", ref="4/C05",
        text="Every string of length <=6 (quick) / <=8 (thorough) over the 8-character alphabet { % } - \" space newline a is tokenised by the real parser.Scan at three starting lines and checked against the partition law (token sources concatenate to the input, trim tokens are empty), the line-number law, and text-only identity; the same strings are used as raw bodies (three spellings) and comment bodies, comment bodies are additionally drawn from lexical fragments containing failing and probing constructs (nothing may be evaluated), and all strings of length <=3|4 over a 19-symbol value alphabet are printed as string, []byte and *string in five positions. A scaled family repeats every string of length <=3 up to 16384 times.",
        note="Laws on the implementation's own output only. Known finding: a raw/comment body whose unclosed tag- or object-opener extends over the end tag is not handled (tokenizer is not raw-aware).",
        tech="exhaustive string enumeration over a delimiter alphabet with partition/line/identity laws on the real tokenizer and renderer"),
    "C06": dict(
        cat="model_checking", ref="4/C06",
        text="A pushdown acceptor written from the Liquid documentation (stack of open blocks with their admitted clauses, comment and raw modes) decides acceptance of every token sequence of length <=5 (quick, 5.4 M) / <=6 (thorough, 119 M) over a 22-symbol alphabet of block openers, clause tags, end tags, a plain tag, an object and text markers; each sequence is parsed by the real ParseTemplate (no state merging), accept/reject must agree, rejected input must return nil and a SourceError, and for accepted input the tree read through GetRoot and the rendered markers must equal the model's tree and taken paths.",
        note="Rendering not compared when a clause follows an else or content precedes the first when. PDA and clause table in mc/props/c06.go share no code with /repo.",
        tech="exhaustive token-sequence enumeration against a pushdown-automaton model, every model trace replayed on the real parser"),
    "C07": dict(
        cat="exploration", ref="4/C07",
        text="41 kinds of failing construct (among them filters whose own error is the SourceError of another template) are placed in the taken body of every nesting path of depth 0..2 (quick) / 0..3 (thorough) over 7 enclosing block forms, under all combinations of four kinds of surrounding text at every level (0/1/2 preceding newlines, or a decoy: the very same construct on an earlier line inside a branch that is not taken), with and without newlines inside tags, parsed with and without a path at start lines 0, 1 and 7, through both entry points; the generator knows the byte offset of the failing construct, so the returned SourceError is checked for line = start + preceding newlines, path, cause chain (sentinel filter error, os.IsNotExist, conversion error), message, parse-time vs render-time, and no output together with an error.",
        note="Placement inside included files is not enumerated (the statement does not say whose line is meant).",
        tech="exhaustive placement enumeration of failing constructs (kind x nesting path x layout x location) with a generator-known expected location"),
    "C19": dict(
        cat="exploration", ref="4/C19",
        text="Every quadruple of distinct, mutually non-prefixing delimiter strings of length 1-2 over {< > [ ]} (quick, 8 templates) / {< > [ ] $ \\} (thorough, 2.1 M quadruples x 20 templates) is installed with Engine.Delims on a fresh engine, the template is re-spelled with it, and output / error line / error cause must equal those of the default spelling on a default engine; templates cover hyphens on objects, block, clause and end tags, raw and comment blocks, default-delimiter text that must become ordinary text, failing lines and unterminated blocks. Every subset of positions left empty must behave as the default for that position.",
        note="Lengths 3-4 only through a pattern family (not exhaustive). One open known finding (known_findings.json, DESIGN.md 9.3): with a tag closer that begins with a hyphen, an argument-less tag written with a right trim marker is not closed at its closer. Templates avoid the delimiter alphabet outside delimiters. Errors compared by line number and cause text.",
        tech="exhaustive configuration enumeration (delimiter quadruples) x programs with a differential oracle against the default configuration"),
    "C20": dict(
        cat="fault_enumeration", ref="4/C20",
        text="For 52 templates covering every tag, trim-marker placement, output shape and loops left by break/continue (plus ~1000 hyphen-subset skeletons), a fault-free render records the Write calls the engine makes; then for every call index k the writer is made to fail at call k, accepting nothing or a strict prefix (all prefix lengths for short calls), once or forever, through FRender and ParseAndFRender. Each run must return a non-nil SourceError whose cause chain reaches the injected error, never panic, never report success, the bytes accepted up to the failure must be a prefix of the fault-free output, and after a permanent failure at most one more Write may be attempted. Contract-violating short writes (n < len, nil error) are enumerated for totality.",
        note="One fault per run (rendering must stop at the first failure, so later faults are unreachable). The set of Write calls is taken from the implementation's own fault-free run.",
        tech="exhaustive fault-point enumeration: every write index x fault shape on the real render path with an injecting io.Writer"),
    "C14": dict(
        cat="fault_enumeration", ref="4/C14",
        text="The include environment (file system + template cache) is finite and owned by the harness: three files are each independently on disk, in the cache only, in both with different content, or missing (64 configurations, 'missing' being the injected fault), combined with 6 acyclic include graphs (nested, repeated, inside a loop), 8 ways of writing the include argument (literal, variable, variable assigned earlier in the render, filtered expression, map property, three non-strings), 4 included bodies (reading top-level and freshly assigned variables, assigning, failing filter, syntax error) and main templates parsed at several directory depths and without a path. Expected content is disk, else cache, else error; when everything resolves the output must equal the engine's own rendering of the textually inlined template, otherwise a SourceError with no output (os.IsNotExist cause for a missing file).",
        note="Nested includes only between files of the main template's own directory (where both readings of 'relative to' coincide). Files live under /verif/.work/c14.<pid>, removed by the worker.",
        tech="exhaustive environment-configuration enumeration (file present/cached/both/missing) x include graphs x argument forms with a reference inliner"),
    "C02": dict(
        cat="model_checking", ref="4/C02",
        text="The only nondeterminism reachable from the interpreter is Go map iteration order, so the harness takes ownership of it: a go build -overlay of runtime/map.go (generated by tools/rtseam.sh, anchors verified) turns every map-iteration start into an environment choice point. For 20 map-consuming templates (one over map entries that reach each other: a ring of struct pointers, entries sharing a node) x maps of 2..27 entries x insertion orders (all n! for n<=4, shifts and reversal beyond), a deviation-bounded depth-first search runs the real render under every choice vector with <=1 (quick) / <=3 (thorough) non-default iteration starts; every execution must produce the canonical output. Independently every template of a ~400-template pool goes through 6 entry points, 3 re-renders of one parsed template, a fresh engine and rebuilt bindings, two fresh processes must produce identical digests of the whole pool, and (thorough) the command-line tool is run as a sub-process. Memory addresses: 15 values holding pointers in printing positions are each built twice (both alive, so no address coincides) and rendered through 25 printing positions; the two results must be the same bytes (one known finding: the %#v fallback of the inspect filter).",
        note="Environment automaton = rotations of bucket slot order x hash-seed-pinned bucket choice; maps above 13 entries not enumerated. Without the seam (other Go version) the check exits 0 with exhaustive:false.",
        tech="deviation-bounded DFS over environment answers (Go map-iteration start) on the real code via a runtime overlay, plus entry-point/process differential"),
    "C18": dict(
        cat="model_checking", ref="4/C18",
        text="One logical binding environment (ints, floats, strings, bool, nil, flat/nested/empty lists, maps, list of maps; ~60 value-tree nodes) is realised in Go representations chosen independently at every node (numeric width, Drop by value or by pointer, pointer, typed slice, fixed array, typed map, ordered YAML map, []byte) and rendered through 28 templates that use each binding only in the positions the statement names; exploration is deviation-bounded: every assignment with <=1 (quick) / <=3 (thorough) non-default nodes among those a template uses. The oracle is differential - the output of the all-generic assignment - so nothing beyond the statement's position list can be demanded.",
        note="[]byte only printed or as string-filter input; MapSlice only for lookup and size; pointers only at top level or as map values reached by property lookup.",
        tech="deviation-bounded exhaustive enumeration of representation assignments over a value tree with a differential oracle"),
    "C03": dict(
        cat="model_checking", ref="4/C03",
        text="Explicit-state search over call histories: one shared world (one engine, templates parsed once, binding environments built once and shared by reference, exactly as a caller would) and the operations R(t,b) = t.Render(b). All histories of length <=2 over 29 templates x 3 environments (quick) / <=3 over 39 x 4 (thorough), each replayed on a fresh world, plus 40-step round-robin histories. After every step three invariants are checked: a deep snapshot of every environment (slices up to capacity with sentinels in the spare capacity, aliased sub-slices, unexported fields, pointer identity) is unchanged; the result equals the solo result on a fresh engine, parse and bindings; the parsed render trees and the engine configuration are structurally unchanged. A further family keeps the []byte returned by renders of 0..2^20 bytes and re-reads it after later renders. Structural changes of render trees or engine configuration are recorded, not alarmed on (the statement defines template immutability through re-render equality).",
        note="Successor = replay of the history on a fresh world + one operation (live objects cannot be cloned). Closure-captured state is visible only through the solo-equality invariant.",
        tech="explicit-state search over operation histories on the real objects with deep-snapshot invariants and a differential solo oracle"),
    "C04": dict(
        cat="model_checking", ref="4/C04",
        text="Two complementary exhaustive explorations of the same harness bodies. (a) A hand-written cooperative scheduler runs 2-3 goroutines that parse and render on one engine, one set of parsed templates and one shared bindings map (slices, maps, Drops), switching only at scheduling points the harness owns and plants densely (an identity filter on every object, a no-op tag after every tag and object, a block, Drop.ToLiquid, every Write of the FRender writer, operation starts) and - through a build-time overlay that rewrites the repository's \"sync\" imports to a cooperative shim - at every Mutex/RWMutex/Once/Pool/Map/WaitGroup operation of the library itself, with blocking visible to the scheduler (no enabled goroutine = deadlock); scenarios: same template twice, parse against render, two templates, two concurrent parses, three goroutines; every schedule with <=2 (quick) / <=3 (thorough) preemptions is executed to completion on a fresh world (deviation-bounded DFS, replay divergence is a hard error), and every operation must return its solo result with the shared bindings unchanged. (b) Because a cooperative scheduler's hand-offs are happens-before edges that blind the race detector, the same kind of bodies run free in a separate -race build: one program per standard tag, filter and operator form, rendered by 2/8/32 goroutines at GOMAXPROCS 1/4/16 on one parsed template and concurrently with a parse of its own source, every phase starting on a cold engine and including outputs beyond 64 KiB; any race report or result differing from sequential is a violation.",
        note="Granularity of (a) is 'between any two template nodes and around every expression evaluation'; finer interleavings are delegated to (b), which is complete per program only because renders contain no synchronisation (two conflicting accesses are unordered in every schedule). The statement's static check is another technique family and is not built.",
        tech="stateless model checking: preemption-bounded DFS over schedules of the real code under a controlled scheduler, plus a free-running race-detector pass over an enumerated program alphabet"),
}

NOT_YET = "check not built yet (work in progress; see DESIGN.md section 7 build order)"
NA = {}

def main():
    hooks_commits = []
    m = {
        "version": 1,
        "setup_cmd": "./check --setup",
        "hooks": {
            "guard": "verif",
            "enable": "no source hooks: checks compile /repo's working tree through the go.mod replace directive; go build -overlay adds accessor files (tools/overlay.sh), and for the C04 scheduler build compiles each repository file importing the sync package from a copy derived at build time whose only change is that import line (tools/overlay.sh sched)",
            "baseline_off_cmd": "cd /repo && GOFLAGS=-mod=mod GOPROXY=off GOSUMDB=off GOTOOLCHAIN=local go test -vet=off -count=1 ./...",
            "source_commits": hooks_commits,
            "add_only": True,
        },
        "engines": [{
            "name": "mc", "path": "mc/", "serves_properties": sorted(CHECKS),
            "kind_free_text": "hand-written Go explorer: coordinator + sharded worker sub-processes enumerating finite case families, reference models in mc/ref, deviation-bounded DFS over environment choices and schedules",
        }],
        "checks": [],
        "not_applicable": [],
        "notes": "All checks: ./check <ID> quick|thorough. Known findings: known_findings.json (read-only at run time). Replays: replays/<ID>/*.json via ./check <ID> --replay <file>.",
    }
    for i in ids:
        if i in CHECKS:
            c = CHECKS[i]
            m["checks"].append({
                "property_id": i,
                "quick_cmd": f"./check {i} quick",
                "thorough_cmd": f"./check {i} thorough",
                "evidence_file": f"evidence/{i}.json",
                "replay_cmd_template": f"./check {i} --replay {{path}}",
                "engine": "mc",
                "level_claimed": {"category": c["cat"], "text": c["text"] + " Families added while hardening the check against eleven rounds of seeded changes (DESIGN.md 9.6) are enumerated the same way; the evidence file lists every family with its case count.", "design_ref": c["ref"]},
                "level_note": c["note"],
                "technique": c["tech"],
            })
        else:
            m["not_applicable"].append({"property_id": i, "reason": NA.get(i, NOT_YET)})
    json.dump(m, open(os.path.join(ROOT, "MANIFEST.json"), "w"), indent=1)
    print("wrote MANIFEST.json:", len(m["checks"]), "checks,", len(m["not_applicable"]), "not applicable")

main()
