#!/bin/sh
# tools/verify-seed.sh <ID> : independently confirms a sub-agent's seeded change from /tmp/seed-<ID>-out:
#  patch applies to /repo HEAD in a fresh scratch worktree, module builds, unedited suite passes,
#  demonstration fails with the change and passes without it. Prints a summary; leaves nothing behind.
ID="$1"; OUT="${SEED_OUT:-/tmp/seed-$ID-out}"
export GOFLAGS=-mod=mod GOPROXY=off GOSUMDB=off GOTOOLCHAIN=local
SCR="/root/vscratch/vs.$ID.$$"; mkdir -p /root/vscratch
git -C /repo worktree add -q --detach "$SCR" HEAD || exit 2
cd "$SCR" || exit 2
DEMO=$(ls "$OUT"/*_test.go 2>/dev/null | head -1)
[ -n "$DEMO" ] || { echo "$ID: no demo test file in $OUT"; ls "$OUT"; git -C /repo worktree remove --force "$SCR"; exit 1; }
PKGDIR="${2:-.}"
RACE="${3:-}"
cp "$DEMO" "$PKGDIR/"
NAME=$(grep -o 'func Test[A-Za-z0-9_]*' "$DEMO" | head -1 | sed 's/func //')
echo "== $ID demo=$DEMO test=$NAME pkg=$PKGDIR"
if go test $RACE -vet=off -count=1 -run "^$NAME\$" "./$PKGDIR" >/tmp/vs.$$.log 2>&1; then echo "without change: demo PASSES (ok)"; else echo "without change: demo FAILS (BAD)"; tail -5 /tmp/vs.$$.log; fi
if git apply "$OUT/patch.diff"; then echo "patch applies"; else echo "patch DOES NOT APPLY"; fi
if go build ./... ; then echo "builds"; else echo "BUILD FAILS"; fi
mv "$PKGDIR/$(basename "$DEMO")" /tmp/vs.$$.demo
if go test -vet=off -count=1 ./... >/tmp/vs.$$.log 2>&1; then echo "suite passes with change (ok)"; else echo "suite FAILS with change (BAD)"; grep -v "^ok" /tmp/vs.$$.log | head -5; fi
mv /tmp/vs.$$.demo "$PKGDIR/$(basename "$DEMO")"
if go test $RACE -vet=off -count=1 -run "^$NAME\$" "./$PKGDIR" >/tmp/vs.$$.log 2>&1; then echo "with change: demo PASSES (BAD)"; else echo "with change: demo FAILS (ok)"; grep -m3 -E "^\s+.*_test.go|DATA RACE|panic" /tmp/vs.$$.log | cut -c1-200; fi
cd /; git -C /repo worktree remove --force "$SCR"; rm -f /tmp/vs.$$.log
