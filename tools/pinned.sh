#!/bin/sh
# tools/pinned.sh: run every quick check against the pinned commit (966a6b2, before any fix:) in a scratch
# worktree and print how many distinct violation keys each reports there (detection evidence on real defects).
cd "$(dirname "$0")/.."
for id in $(python3 -c "import json;print(' '.join(c['property_id'] for c in json.load(open('MANIFEST.json'))['checks']))"); do
	out=$(tools/at-commit.sh 966a6b2 $id quick 2>&1)
	n=$(echo "$out" | grep -c '^VIOLATION')
	echo "$id: $n violation keys on the pinned tree; e.g. $(echo "$out" | grep -m3 'key=' | sed 's/ family.*//;s/^ *key=//' | tr '\n' ';' | cut -c1-200)"
done
