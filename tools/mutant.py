#!/usr/bin/env python3
"""tools/mutant.py <ID> <tier> <file> <old> <new> [--tests]
Applies a textual replacement to a scratch worktree of /repo HEAD, optionally runs the repo's tests there,
runs the check against it, and removes the worktree. Exit code = the check's."""
import os, subprocess, sys, tempfile, shutil
ID, tier, path, old, new = sys.argv[1:6]
tests = '--tests' in sys.argv
scr = f"/root/vscratch/mut.{os.getpid()}"
os.makedirs("/root/vscratch", exist_ok=True)
subprocess.check_call(["git", "-C", "/repo", "worktree", "add", "-q", "--detach", scr, "HEAD"])
try:
    p = os.path.join(scr, path)
    s = open(p).read()
    if old not in s:
        print("mutant: pattern not found"); sys.exit(2)
    open(p, "w").write(s.replace(old, new, 1))
    env = dict(os.environ, GOFLAGS="-mod=mod", GOPROXY="off", GOSUMDB="off", GOTOOLCHAIN="local")
    if tests:
        rc = subprocess.call("go build ./... && go test -vet=off -count=1 ./... 2>&1 | grep -v '^ok' | tail -5", shell=True, cwd=scr, env=env)
        print("repo tests rc", rc)
    out = f"/root/vscratch/out.{os.getpid()}"
    os.makedirs(out, exist_ok=True)
    env.update(VERIF_REPO=scr, VERIF_OUT=out)
    rc = subprocess.call(["/verif/check", ID, tier], env=env)
    shutil.rmtree(out, ignore_errors=True)
    sys.exit(rc)
finally:
    subprocess.call(["git", "-C", "/repo", "worktree", "remove", "--force", scr])
