#!/bin/sh
# Generates a go build -overlay that gives the harness control over Go map iteration start
# (runtime.mapiterinit) and map hash seeds. Prints the overlay path. Fails loudly when the
# anchors are not found exactly as expected (different Go version).
set -eu
VERIF_DIR="$(cd "$(dirname "$0")/.." && pwd)"
OUT="$VERIF_DIR/.cache/rtseam"
mkdir -p "$OUT"
GOROOT="$(GOTOOLCHAIN=local go env GOROOT)"
SRC="$GOROOT/src/runtime/map.go"
[ -f "$SRC" ] || { echo "rtseam: $SRC not found" >&2; exit 3; }
n=$(grep -c '^	r := uintptr(rand())$' "$SRC" || true)
[ "$n" = "1" ] || { echo "rtseam: anchor 'r := uintptr(rand())' found $n times in $SRC (unsupported Go version)" >&2; exit 3; }
h=$(grep -c '^	h.hash0 = uint32(rand())$' "$SRC" || true)
[ "$h" -ge 2 ] || { echo "rtseam: hash0 anchors found $h times" >&2; exit 3; }
awk '
/^	r := uintptr\(rand\(\)\)$/ { print; print "	if verifMapOn {"; print "		r = verifMapNext(h.count, h.B)"; print "	}"; next }
/^	h.hash0 = uint32\(rand\(\)\)$/ { print; print "	if verifPinHash {"; print "		h.hash0 = 0x5eed1234"; print "	}"; next }
{ print }' "$SRC" > "$OUT/map.go"
cat > "$OUT/verif_map.go" <<'GO'
package runtime

// Harness-owned seam (added by /verif/tools/rtseam.sh through go build -overlay):
// every map-iteration start becomes an environment choice point.

var (
	verifMapOn   bool
	verifPinHash bool
	verifChoices [512]uint16
	verifNChoice int
	verifPos     int
	verifLog     [4096]uint32 // count<<8 | B per choice point
	verifLogN    int
)

// VerifMapBegin installs the answers for the next choice points (0 afterwards).
func VerifMapBegin(choices []int) {
	verifNChoice = 0
	for i, c := range choices {
		if i < len(verifChoices) {
			verifChoices[i] = uint16(c)
			verifNChoice++
		}
	}
	verifPos = 0
	verifLogN = 0
	verifMapOn = true
}

// VerifMapEnd switches the seam off and returns the log of (count<<8|B) per choice point.
func VerifMapEnd() []uint32 {
	verifMapOn = false
	out := make([]uint32, verifLogN)
	copy(out, verifLog[:verifLogN])
	return out
}

// VerifPinHash makes every map created from now on use a fixed hash seed.
func VerifPinHash(on bool) { verifPinHash = on }

func verifMapNext(count int, B uint8) uintptr {
	if verifLogN < len(verifLog) {
		verifLog[verifLogN] = uint32(count)<<8 | uint32(B)
		verifLogN++
	}
	var c uintptr
	if verifPos < verifNChoice {
		c = uintptr(verifChoices[verifPos])
	}
	verifPos++
	return c
}
GO
cat > "$OUT/overlay.json" <<JSON
{"Replace": {"$SRC": "$OUT/map.go", "$GOROOT/src/runtime/verif_map.go": "$OUT/verif_map.go"}}
JSON
echo "$OUT/overlay.json"
