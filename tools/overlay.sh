#!/bin/sh
# tools/overlay.sh [rtseam|sched]: writes a go build -overlay JSON that ADDS (never replaces) two small files to the
# repository under test, giving the harness read access to the registered filter functions (their real
# signatures are the arity oracle of C08). With the argument "rtseam" the runtime map-iteration seam of C02 is
# merged in. Prints the path of the JSON. Nothing in $VERIF_REPO is touched.
set -eu
VERIF_DIR="$(cd "$(dirname "$0")/.." && pwd)"
REPO="${VERIF_REPO:-/repo}"
OUT="$VERIF_DIR/.cache/ovl.$(echo "$REPO" | tr '/' '_')"
mkdir -p "$OUT"
cat > "$OUT/liquid_verif_export.go" <<'GO'
package liquid

import "github.com/osteele/liquid/expressions"

// VerifFilterFunc (added by /verif/tools/overlay.sh at build time only) returns the function registered
// for a filter name on this engine, or nil.
func VerifFilterFunc(e *Engine, name string) any {
	return expressions.VerifFilterFunc(e.cfg.Config.Config, name)
}
GO
cat > "$OUT/expressions_verif_export.go" <<'GO'
package expressions

// VerifFilterFunc (added by /verif/tools/overlay.sh at build time only).
func VerifFilterFunc(c Config, name string) any { return c.filters[name] }
GO
EXTRA=""
if [ "${1:-}" = "rtseam" ]; then
	RT="$("$VERIF_DIR/tools/rtseam.sh")" || exit 3
	EXTRA=$(python3 -c "import json,sys; d=json.load(open('$RT'))['Replace']; print(','.join(json.dumps(k)+':'+json.dumps(v) for k,v in d.items()))")
	EXTRA=",$EXTRA"
fi
if [ "${1:-}" = "sched" ]; then
	# C04 scheduler build: every non-test file of the repository that imports "sync" is compiled from a copy
	# DERIVED NOW from the working tree in which only that import line is rewritten to the cooperative shim
	# (verifmc/syncshim), so locks, onces, pools and concurrent maps become scheduling points.
	rm -rf "$OUT/sync"; mkdir -p "$OUT/sync"
	for f in $(cd "$REPO" && grep -rlE '^[[:space:]]*(import[[:space:]]+)?"sync"[[:space:]]*$' --include='*.go' . | grep -v '_test\.go$' | sed 's#^\./##'); do
		d="$OUT/sync/$(echo "$f" | tr '/' '_')"
		sed -E 's#^([[:space:]]*(import[[:space:]]+)?)"sync"[[:space:]]*$#\1sync "verifmc/syncshim"#' "$REPO/$f" > "$d"
		EXTRA="$EXTRA,\"$REPO/$f\":\"$d\""
	done
fi
cat > "$OUT/overlay.${1:-plain}.json" <<JSON
{"Replace": {"$REPO/verif_export.go": "$OUT/liquid_verif_export.go", "$REPO/expressions/verif_export.go": "$OUT/expressions_verif_export.go"$EXTRA}}
JSON
echo "$OUT/overlay.${1:-plain}.json"
