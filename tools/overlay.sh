#!/bin/sh
# tools/overlay.sh [rtseam]: writes a go build -overlay JSON that ADDS (never replaces) two small files to the
# repository under test, giving the harness read access to the registered filter functions (their real
# signatures are the arity oracle of C08). With the argument "rtseam" the runtime map-iteration seam of C02 is
# merged in. Prints the path of the JSON. Nothing in $VERIF_REPO is touched.
set -eu
VERIF_DIR="$(cd "$(dirname "$0")/.." && pwd)"
REPO="${VERIF_REPO:-/repo}"
OUT="$VERIF_DIR/.cache/ovl.$(echo "$REPO" | tr '/' '_')"
mkdir -p "$OUT"
cat > "$OUT/liquid_verif_export.go" <<'GO'
package liquid

import "github.com/osteele/liquid/expressions"

// VerifFilterFunc (added by /verif/tools/overlay.sh at build time only) returns the function registered
// for a filter name on this engine, or nil.
func VerifFilterFunc(e *Engine, name string) any {
	return expressions.VerifFilterFunc(e.cfg.Config.Config, name)
}
GO
cat > "$OUT/expressions_verif_export.go" <<'GO'
package expressions

// VerifFilterFunc (added by /verif/tools/overlay.sh at build time only).
func VerifFilterFunc(c Config, name string) any { return c.filters[name] }
GO
EXTRA=""
if [ "${1:-}" = "rtseam" ]; then
	RT="$("$VERIF_DIR/tools/rtseam.sh")" || exit 3
	EXTRA=$(python3 -c "import json,sys; d=json.load(open('$RT'))['Replace']; print(','.join(json.dumps(k)+':'+json.dumps(v) for k,v in d.items()))")
	EXTRA=",$EXTRA"
fi
cat > "$OUT/overlay.json" <<JSON
{"Replace": {"$REPO/verif_export.go": "$OUT/liquid_verif_export.go", "$REPO/expressions/verif_export.go": "$OUT/expressions_verif_export.go"$EXTRA}}
JSON
echo "$OUT/overlay.json"
