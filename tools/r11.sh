#!/bin/sh
# tools/r6.sh <A##> <CNN> "<needs>" [-race] : verify + keep + test a round-11 seed (feature-interaction targeted) as seeded/<CNN>h-<D##>
A="$1"; P="$2"; NEEDS="$3"; RACE="${4:-}"; ID="${P}k-$A"
SEED_OUT=/tmp/s11-$A-out /verif/tools/verify-seed.sh $ID . $RACE 2>&1 | grep -E "^==|BAD|DOES NOT|FAILS \(ok\)|PASSES \(ok\)|suite" | tr '\n' ' '; echo
if [ -n "$NEEDS" ]; then SEED_OUT=/tmp/s11-$A-out /verif/tools/keep-seed.sh $ID $P "$NEEDS" >/dev/null && /verif/tools/seeded.sh $ID; fi
