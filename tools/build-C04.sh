# sourced by ./check for C04: the free-running race pass needs a -race build of the same code
RACEBIN="$VERIF_DIR/.bin/mc-race"
if [ "$VERIF_REPO" != "/repo" ]; then RACEBIN="$VERIF_DIR/.work/mc-race.alt.$$"; fi
build -race -o "$RACEBIN" ./cmd/mc
export VERIF_MC_RACE="$RACEBIN"
