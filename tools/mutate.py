#!/usr/bin/env python3
"""tools/mutate.py [--out FILE] [--files f1,f2] [--limit N]
Systematic single-site mutation of /repo's non-test, non-generated Go sources in ONE scratch worktree
(outside /repo and /verif): for every mutant that compiles and passes the repository's own test suite,
run the quick checks of the properties anchored in the mutated file (fastest first, stop at the first
VIOLATION) and record whether any check caught it. Survivors are candidates for blind spots (or
equivalent mutants) and are reviewed by hand. Output: one JSON object per mutant."""
import json, os, re, subprocess, sys, time

VERIF = os.path.dirname(os.path.dirname(os.path.abspath(__file__)))
out_path = "/root/vscratch/mutation-report.jsonl"
only_files, limit = None, None
args = sys.argv[1:]
while args:
    a = args.pop(0)
    if a == "--out": out_path = args.pop(0)
    elif a == "--files": only_files = args.pop(0).split(",")
    elif a == "--limit": limit = int(args.pop(0))

ENV = dict(os.environ, GOFLAGS="-mod=mod", GOPROXY="off", GOSUMDB="off", GOTOOLCHAIN="local")
SCR = f"/root/vscratch/mutate.{os.getpid()}"
os.makedirs("/root/vscratch", exist_ok=True)
subprocess.check_call(["git", "-C", "/repo", "worktree", "add", "-q", "--detach", SCR, "HEAD"])

# file -> properties (from the anchors of properties.jsonl), plus the cross-cutting ones
anch = {}
for l in open(os.path.join(VERIF, "properties.jsonl")):
    p = json.loads(l)
    for f in p["anchors"]["files"]:
        anch.setdefault(f, []).append(p["id"])
ALWAYS = ["C03", "C01"]
SPEED = ["C18", "C20", "C02", "C03", "C15", "C09", "C16", "C17", "C13", "C11", "C07", "C14", "C19", "C08", "C05", "C06", "C04", "C01", "C10", "C12"]

EXCLUDE = {"expressions/y.go", "expressions/scanner.go", "values/docs.go", "parser/tokentype_string.go", "cmd/liquid/main.go", "evaluator/evaluator.go"}
files = subprocess.check_output(["git", "-C", "/repo", "ls-files", "*.go"], text=True).split()
files = [f for f in files if not f.endswith("_test.go") and f not in EXCLUDE]
if only_files: files = [f for f in files if f in only_files]

OPS = [
    ("rel", re.compile(r"(?<![<>=!:+\-*/&|])(<=|>=|==|!=)(?![=])"), {"<=": "<", ">=": ">", "==": "!=", "!=": "=="}),
    ("rel2", re.compile(r"(?<![<>=!\-])( < | > )(?![=])"), {" < ": " <= ", " > ": " >= "}),
    ("logic", re.compile(r"(&&|\|\|)"), {"&&": "||", "||": "&&"}),
    ("bool", re.compile(r"\b(true|false)\b"), {"true": "false", "false": "true"}),
    ("arith", re.compile(r"( \+ 1\b| - 1\b)"), {" + 1": " - 1", " - 1": " + 1"}),
    ("const", re.compile(r"(?<![\w.\"])(0|1)(?![\w.\"x])"), {"0": "1", "1": "0"}),
]

def code_part(line):
    s = line.split("//")[0]
    return s

def mutants_of(path, lines):
    for i, line in enumerate(lines):
        s = line.strip()
        if not s or s.startswith("//") or s.startswith("import") or s.startswith("package") or s.startswith('"'):
            continue
        code = code_part(line)
        if '`' in code:  # raw strings (regexps): too fragile
            continue
        for name, rx, table in OPS:
            for m in rx.finditer(code):
                # skip matches inside double-quoted strings (crude: odd number of quotes before)
                if code[:m.start()].count('"') % 2 == 1:
                    continue
                tok = m.group(1)
                new = line[:m.start(1)] + table[tok] + line[m.end(1):]
                yield i, name, line, new
        # statement deletion: simple statements only
        if re.match(r"^\t+[\w.\[\]()*&]+(\s*[:+\-]?=|\(|\.\w+\().*[^{,(]$", line.rstrip("\n")) and not s.startswith(("return", "case", "default", "break", "continue", "go ", "var ", "type ", "func ")):
            yield i, "delete", line, ""
        # condition negation
        m = re.match(r"^(\t+)if (.+) \{$", line.rstrip("\n"))
        if m and ";" not in m.group(2):
            yield i, "negate", line, f"{m.group(1)}if !({m.group(2)}) {{\n"

def run(cmd, timeout, cwd=SCR, env=ENV):
    try:
        r = subprocess.run(cmd, shell=True, cwd=cwd, env=env, capture_output=True, text=True, timeout=timeout)
        return r.returncode, r.stdout + r.stderr
    except subprocess.TimeoutExpired:
        return 124, "timeout"

n = 0
done = set()
if os.path.exists(out_path):
    for l in open(out_path):
        try:
            d = json.loads(l)
            done.add((d["file"], d["line"], d["op"], d["mutated"]))
        except Exception:
            pass
out = open(out_path, "a")
try:
    for f in files:
        p = os.path.join(SCR, f)
        orig = open(p).read()
        lines = orig.splitlines(keepends=True)
        anchored = [x for x in SPEED if x in set(anch.get(f, []) + ALWAYS)]
        props = anchored + [x for x in SPEED if x not in anchored]  # anchored checks first, then every other one
        for i, op, old, new in mutants_of(f, lines):
            if (f, i + 1, op, new.strip()) in done:
                continue  # already in the report (resumed run)
            if limit is not None and n >= limit: raise SystemExit
            n += 1
            mutated = lines[:i] + ([new] if new else []) + lines[i+1:]
            open(p, "w").write("".join(mutated))
            rec = {"file": f, "line": i + 1, "op": op, "orig": old.strip(), "mutated": new.strip()}
            rc, _ = run("go build ./...", 180)
            if rc != 0:
                rec["status"] = "does-not-compile"
            else:
                rc, o = run("go test -vet=off -count=1 -timeout 120s ./...", 400)
                if rc != 0:
                    rec["status"] = "killed-by-repo-tests"
                else:
                    rec["status"] = "survived"
                    rec["checks_run"] = []
                    env = dict(ENV, VERIF_REPO=SCR, VERIF_OUT=f"/root/vscratch/mutout.{os.getpid()}")
                    os.makedirs(env["VERIF_OUT"], exist_ok=True)
                    for pid in props:
                        t0 = time.time()
                        rc, o = run(f"{VERIF}/check {pid} quick", 1500, cwd=VERIF, env=env)
                        rec["checks_run"].append(pid)
                        if "VIOLATION property=" in o:
                            rec["status"] = "caught"
                            rec["caught_by"] = pid
                            m = re.search(r"key=(\S+)", o)
                            rec["key"] = m.group(1) if m else ""
                            break
                        if rc not in (0, 1):
                            rec.setdefault("harness_errors", []).append(pid)
            out.write(json.dumps(rec) + "\n"); out.flush()
            open(p, "w").write(orig)
finally:
    subprocess.call(["git", "-C", "/repo", "worktree", "remove", "--force", SCR])
    subprocess.call(["rm", "-rf", f"/root/vscratch/mutout.{os.getpid()}"])
print("mutants generated:", n)
