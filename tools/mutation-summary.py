#!/usr/bin/env python3
"""tools/mutation-summary.py [report.jsonl]: writes mutation/SUMMARY.md from the report of tools/mutate.py."""
import json, sys, collections, os
rep = sys.argv[1] if len(sys.argv) > 1 else "/root/vscratch/mutation-report.jsonl"
rows = [json.loads(l) for l in open(rep) if l.strip()]
by = collections.Counter(r["status"] for r in rows)
files = collections.OrderedDict()
for r in rows:
    files.setdefault(r["file"], collections.Counter())[r["status"]] += 1
caught_by = collections.Counter(r.get("caught_by") for r in rows if r["status"] == "caught")
# reviewed survivors: (file, original, mutated) -> why no property is broken
WHY = {
 ("expressions/expressions.go", "err = e", ""): "case arm of the recover switch for a panic type no reachable code raises any more (dead)",
 ("expressions/expressions.go", "panic(r)", ""): "re-panic of a non-error panic value inside Evaluate's recover: no reachable code panics with a non-error value (a C01 violation if one did)",
 ("expressions/filters.go", "panic(err)", ""): "error path of a closure-argument parse that cannot fail (the argument was parsed before)",
 ("expressions/parser.go", "err = e", ""): "recover arm for a panic type the generated parser no longer raises (dead)",
 ("expressions/parser.go", "panic(r)", ""): "re-panic of an unknown panic value in parse's recover: unreachable on every enumerated input (a C01 violation otherwise)",
 ("filters/sort_filters.go", "return a < b", "return a <= b"): "sort_natural's comparator: only the order among elements with EQUAL keys changes; the statement asks for a permutation in ascending order, not for stability",
 ("filters/standard_filters.go", "result = make([]any, 0, len(a)+len(b))", ""): "pre-sizing only; append on the nil slice gives the same elements",
 ("filters/standard_filters.go", "return 0, errDivisionByZero", "return 1, errDivisionByZero"): "value returned together with an error is ignored by the caller",
 ("filters/standard_filters.go", "if start > len(ss) || n < 0 {", "if start >= len(ss) || n < 0 {"): "slice: start == len gives the empty string either way",
 ("filters/standard_filters.go", "if start > len(ss) || n < 0 {", "if start > len(ss) || n <= 0 {"): "slice: n == 0 gives the empty string either way",
 ("filters/standard_filters.go", "if start > len(ss) || n < 0 {", "if start > len(ss) || n < 1 {"): "slice: n == 0 gives the empty string either way",
 ("filters/standard_filters.go", "if n > len(ss) {", "if n >= len(ss) {"): "slice: clamping n == len to len is the identity",
 ("filters/standard_filters.go", "if end > len(ss) {", "if end >= len(ss) {"): "slice: clamping end == len to len is the identity",
 ("filters/standard_filters.go", "if n < 0 {", "if n <= 0 {"): "truncate: clamping n == 0 to 0 is the identity",
 ("filters/standard_filters.go", "if n < 0 {", "if n < 1 {"): "truncate: clamping n == 0 to 0 is the identity",
 ("filters/standard_filters.go", "n = 0", "n = 1"): "truncate with a NEGATIVE length: not defined by the statement (C16 class truncate/unspecified)",
 ("filters/standard_filters.go", "if keep < 0 {", "if keep <= 0 {"): "truncate: clamping keep == 0 to 0 is the identity",
 ("filters/standard_filters.go", "if keep < 0 {", "if keep < 1 {"): "truncate: clamping keep == 0 to 0 is the identity",
 ("filters/standard_filters.go", "if n <= 0 {", "if n < 0 {"): "truncatewords: 0 - zero words is not defined by the statement (C16 class truncatewords/unspecified)",
 ("filters/standard_filters.go", "end, words, inWord := 0, 0, false", "end, words, inWord := 1, 0, false"): "initial value never read: end is assigned at the end of the first word before any return that uses it",
 ("filters/standard_filters.go", 'for len(result) > 0 && result[len(result)-1] == "" {', 'for len(result) > 1 && result[len(result)-1] == "" {'): "WAS A BLIND SPOT: '' | split: ',' | size became 1 instead of 0 (the empty list of pieces joins to ''); C16's split/join law now includes the empty string, which kills this mutant",
 ("filters/standard_filters.go", "if a == nil || b == nil {", "if a == nil && b == nil {"): "values.Equal(nil, x) is already false for non-nil x: same result",
 ("liquid.go", "Cause() error", ""): "method removed from an interface that embeds it through another declaration / is still satisfied: no behaviour",
 ("liquid.go", "LineNumber() int", ""): "interface declaration only: no behaviour",
 ("parser/ast.go", "SourceLocation() SourceLoc", ""): "interface declaration only: no behaviour",
 ("parser/ast.go", "SourceText() string", ""): "interface declaration only: no behaviour",
 ("parser/error.go", 'if e.Path() != "" || e.LineNumber() != 0 || loc.SourceLocation().IsZero() {', 'if e.Path() == "" || e.LineNumber() != 0 || loc.SourceLocation().IsZero() {'): "differs only for an inner error with a path and line 0 wrapped by an enclosing node, which then lies on line 0 of the same path too: same Path and LineNumber; only the quoted source text of the message changes (not specified)",
 ("filters/standard_filters.go", "keep = 0", "keep = 1"): "truncate to fewer characters than the ellipsis has: not defined by the statement (C16 class truncate/unspecified)",
}
out = []
out.append("# Systematic mutation of /repo (tools/mutate.py)\n")
out.append("Single-site mutants (relational/logical/boolean/constant/arithmetic operator replacement, statement deletion, condition negation) of the non-test, non-generated sources, each built in ONE scratch worktree outside /repo and /verif. A mutant that compiles and that the repository's own 658 tests do NOT kill is run against the quick checks (the checks of the properties anchored in the mutated file first, then all others) until one reports a VIOLATION.\n")
out.append(f"Report: {len(rows)} mutants so far (the run walks the files in `git ls-files` order and is resumable; it was interrupted to free the machine for the seeded rounds).\n")
out.append("| status | mutants |\n|---|---|")
for k in ("does-not-compile", "killed-by-repo-tests", "caught", "survived"):
    out.append(f"| {k} | {by.get(k,0)} |")
nt = by.get("caught", 0) + by.get("survived", 0)
out.append(f"\nOf the {nt} mutants that the repository's tests let through, {by.get('caught',0)} were caught by a check ({', '.join(f'{k}: {v}' for k, v in caught_by.most_common())}) and {by.get('survived',0)} survived every one of the 20 quick checks.\n")
out.append("| file | does-not-compile | killed by repo tests | caught | survived |\n|---|---|---|---|---|")
for f, c in files.items():
    out.append(f"| {f} | {c.get('does-not-compile',0)} | {c.get('killed-by-repo-tests',0)} | {c.get('caught',0)} | {c.get('survived',0)} |")
out.append("\n## Survivors (each reviewed by hand)\n")
out.append("| file:line | mutation | why no property is broken |\n|---|---|---|")
unrev = 0
for r in rows:
    if r["status"] != "survived":
        continue
    why = WHY.get((r["file"], r["orig"], r["mutated"]))
    if why is None:
        why = "NOT YET REVIEWED"; unrev += 1
    mut = f"`{r['orig']}` -> `{r['mutated'] or '(deleted)'}`".replace("|", "\\|")
    out.append(f"| {r['file']}:{r['line']} | {mut} | {why} |")
out.append(f"\n{by.get('survived',0) - unrev} survivors reviewed: all but one are equivalent mutants (dead recover arms, values returned next to an error, boundary tests whose two sides coincide, interface declarations) or touch behaviour the statements leave open; one was a blind spot (split of the empty string) and led to a strengthening of C16. {unrev} not yet reviewed.\n")
out.append("## Caught mutants (first violation key)\n")
out.append("| file:line | mutation | caught by | key |\n|---|---|---|---|")
for r in rows:
    if r["status"] == "caught":
        mut = f"`{r['orig']}` -> `{r['mutated'] or '(deleted)'}`".replace("|", "\\|")
        out.append(f"| {r['file']}:{r['line']} | {mut} | {r.get('caught_by')} | {r.get('key','')[:70]} |")
os.makedirs(os.path.join(os.path.dirname(os.path.dirname(os.path.abspath(__file__))), "mutation"), exist_ok=True)
open(os.path.join(os.path.dirname(os.path.dirname(os.path.abspath(__file__))), "mutation", "SUMMARY.md"), "w").write("\n".join(out) + "\n")
print("wrote mutation/SUMMARY.md:", dict(by), "unreviewed survivors:", unrev)
