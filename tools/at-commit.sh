#!/bin/sh
# tools/at-commit.sh <commit-or-patch> <ID> [tier]
#   runs a check against a scratch worktree of /repo at <commit> (or HEAD + <patch file>),
#   outside /repo and /verif, and removes it afterwards. Evidence/replays of that run go to a scratch dir.
set -u
WHAT="$1"; ID="$2"; TIER="${3:-quick}"
VERIF_DIR="$(cd "$(dirname "$0")/.." && pwd)"
SCR="/root/vscratch/wt.$$"
mkdir -p /root/vscratch
if [ -f "$WHAT" ]; then
	git -C /repo worktree add -q --detach "$SCR" HEAD || exit 2
	git -C "$SCR" apply "$(realpath "$WHAT")" || { git -C /repo worktree remove --force "$SCR"; exit 2; }
else
	git -C /repo worktree add -q --detach "$SCR" "$WHAT" || exit 2
fi
OUT="/root/vscratch/out.$$"
mkdir -p "$OUT/evidence" "$OUT/replays"
# run with a private evidence dir: copy the verif tree's scripts by reference, redirect outputs
VERIF_REPO="$SCR" VERIF_OUT="$OUT" "$VERIF_DIR/check" "$ID" "$TIER"
rc=$?
git -C /repo worktree remove --force "$SCR"
rm -rf "$OUT"
exit $rc
