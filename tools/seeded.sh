#!/bin/sh
# tools/seeded.sh [ID...]: for every kept seeded change, apply it to a scratch worktree of /repo HEAD
# (outside /repo and /verif), run the quick check of the property it breaks, and report whether the
# check raised a VIOLATION. Never touches /repo's working tree.
cd "$(dirname "$0")/.."
IDS="$*"
[ -n "$IDS" ] || IDS=$(ls seeded | grep -v INDEX | grep -v rejected)
for id in $IDS; do
	d="seeded/$id"
	[ -f "$d/patch.diff" ] || continue
	prop=$(python3 -c "import json;print(json.load(open('$d/meta.json'))['property'])")
	tier=$(python3 -c "import json;print(json.load(open('$d/meta.json')).get('tier','quick'))")
	out=$(tools/at-commit.sh "$d/patch.diff" "$prop" "$tier" 2>&1)
	if echo "$out" | grep -q "^VIOLATION property=$prop"; then
		echo "$id: CAUGHT by $prop $tier ($(echo "$out" | grep -c '^VIOLATION') violation keys; first: $(echo "$out" | grep -m1 '^  key=' | sed 's/ family.*//' | cut -c1-120))"
	else
		echo "$id: MISSED by $prop $tier: $(echo "$out" | tail -1 | cut -c1-200)"
	fi
done
