#!/bin/sh
# tools/all-on-patch.sh <patch.diff> [tier]: apply a patch to ONE scratch worktree of /repo HEAD, run the repo's
# tests and then every registered check against it; print one line per check. Leaves nothing behind.
PATCH="$(realpath "$1")"; TIER="${2:-quick}"
cd "$(dirname "$0")/.."
export GOFLAGS=-mod=mod GOPROXY=off GOSUMDB=off GOTOOLCHAIN=local
SCR="/root/vscratch/aop.$$"; OUT="/root/vscratch/aop-out.$$"
mkdir -p /root/vscratch "$OUT"
git -C /repo worktree add -q --detach "$SCR" HEAD || exit 2
if ! git -C "$SCR" apply "$PATCH"; then echo "patch does not apply"; git -C /repo worktree remove --force "$SCR"; exit 2; fi
( cd "$SCR" && go build ./... && go test -vet=off -count=1 ./... 2>&1 | grep -v "^ok" | grep -v "no test files" | head -5; echo "repo build+tests done" )
for id in $(python3 -c "import json;print(' '.join(c['property_id'] for c in json.load(open('MANIFEST.json'))['checks']))"); do
	o=$(VERIF_REPO="$SCR" VERIF_OUT="$OUT" ./check $id $TIER 2>&1); rc=$?
	n=$(echo "$o" | grep -c '^VIOLATION')
	if [ "$n" -gt 0 ] || [ $rc -ne 0 ]; then
		echo "$id: rc=$rc VIOLATIONS=$n"
		echo "$o" | grep -A4 '^VIOLATION' | grep -E "key=|case=|expected=|observed=" | cut -c1-260 | head -12
		echo "$o" | grep -E "note:|build failed|harness" | head -3
	else
		echo "$id: silent"
	fi
done
git -C /repo worktree remove --force "$SCR"; rm -rf "$OUT"
