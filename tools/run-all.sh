#!/bin/sh
# tools/run-all.sh [tier]: run every registered check, print one summary line each
cd "$(dirname "$0")/.."
TIER="${1:-quick}"
for id in $(python3 -c "import json;print(' '.join(c['property_id'] for c in json.load(open('MANIFEST.json'))['checks']))"); do
	out=$(./check $id $TIER 2>&1); rc=$?
	echo "$out" | grep -E "^(VIOLATION|KNOWN-FINDING)" | cut -c1-160
	echo "rc=$rc $(echo "$out" | tail -1)"
done
