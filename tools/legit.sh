#!/bin/sh
# tools/legit.sh [Ln...]: every behaviour-preserving change under legit/ must leave every quick check silent.
cd "$(dirname "$0")/.."
IDS="$*"; [ -n "$IDS" ] || IDS=$(ls legit | grep '^L')
for id in $IDS; do
	echo "=== $id"
	git -C /repo apply --check "$PWD/legit/$id/patch.diff" 2>/dev/null || { echo "$id: patch no longer applies to /repo HEAD (rebase it)"; continue; }
	tools/all-on-patch.sh "legit/$id/patch.diff" 2>&1 | grep -v ": silent" | grep -v "repo build+tests done"
done
