#!/bin/sh
# tools/keep-seed.sh <seed-id> <property> <needs...>   (after tools/verify-seed.sh said ok)
ID="$1"; PROP="$2"; shift 2; NEEDS="$*"
OUT="${SEED_OUT:-/tmp/seed-$ID-out}"; D="/verif/seeded/$ID"
mkdir -p "$D"; cp "$OUT/patch.diff" "$D/"; cp "$OUT"/*_test.go "$D/" 2>/dev/null; cp "$OUT/notes.md" "$D/agent-notes.md" 2>/dev/null
python3 - "$ID" "$PROP" "$NEEDS" <<'PY'
import json,sys,glob,os
i,p,needs=sys.argv[1:4]
d=f"/verif/seeded/{i}"
demo=[os.path.basename(x) for x in glob.glob(d+"/*_test.go")]
json.dump({"property":p,"needs_to_manifest":needs,"demonstration":demo,
 "verified":"tools/verify-seed.sh: patch applies to /repo HEAD, module builds, unedited suite passes with the change, demonstration fails with the change and passes without it",
 "origin":"written by a fresh sub-agent given only the property text and a scratch worktree"},open(d+"/meta.json","w"),indent=1)
PY
echo kept $D
