#!/bin/sh
# tools/r3.sh <CNN> "<needs>" [-race] : verify + keep + test a round-5 seed as seeded/<CNN>e
P="$1"; NEEDS="$2"; RACE="${3:-}"
SEED_OUT=/tmp/s5-$P-out /verif/tools/verify-seed.sh ${P}e . $RACE 2>&1 | grep -E "^==|BAD|DOES NOT|FAILS \(ok\)|PASSES \(ok\)|suite" | tr '\n' ' '; echo
if [ -n "$NEEDS" ]; then SEED_OUT=/tmp/s5-$P-out /verif/tools/keep-seed.sh ${P}e $P "$NEEDS" >/dev/null && /verif/tools/seeded.sh ${P}e; fi
