#!/bin/sh
# tools/r2.sh <CNN> "<needs>"  : verify + keep + test a round-2 seed as seeded/<CNN>b
P="$1"; NEEDS="$2"; RACE="${3:-}"
SEED_OUT=/tmp/s2-$P-out /verif/tools/verify-seed.sh ${P}b . $RACE 2>&1 | grep -E "^==|BAD|DOES NOT|FAILS \(ok\)|PASSES \(ok\)|suite" | tr '\n' ' '; echo
if [ -n "$NEEDS" ]; then SEED_OUT=/tmp/s2-$P-out /verif/tools/keep-seed.sh ${P}b $P "$NEEDS" >/dev/null && /verif/tools/seeded.sh ${P}b; fi
